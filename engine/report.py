"""Verdicts, replays, known findings and evidence files.

A harness creates one `Report(pid, tier)`; every judged case goes through `report.violation(...)` or is counted with
`report.count(...)`.  `report.finish()` writes /verif/evidence/<id>.json (validated against the evidence schema
before it is written), prints the VIOLATION / KNOWN-FINDING / NOTE lines and returns the exit status:

  0  the property held on everything explored (known findings listed in known_findings.json are printed, not failed)
  1  at least one violation that known_findings.json does not list
  2  machinery failure (TLC, JVM, harness) -- never reported as a violation
"""

from __future__ import annotations

import hashlib
import json
import os
import sys
import time
import traceback
from pathlib import Path

import jsonschema

VERIF = Path(__file__).resolve().parent.parent
SCHEMA = json.loads((VERIF / "engine" / "EVIDENCE.schema.json").read_text())
FINDINGS_FILE = VERIF / "known_findings.json"


def seed() -> int:
    return int(os.environ.get("VERIF_SEED", "0") or 0)


def tier(default: str = "quick") -> str:
    t = os.environ.get("VERIF_TIER", default)
    return t if t in ("quick", "thorough") else default


def _jsonable(o):
    import numpy as np
    if isinstance(o, dict):
        return {str(k): _jsonable(v) for k, v in o.items()}
    if isinstance(o, (list, tuple, set, frozenset)):
        return [_jsonable(v) for v in o]
    if isinstance(o, (np.generic,)):
        return o.item()
    if hasattr(o, "tolist"):
        return o.tolist()
    if isinstance(o, float) and (o != o or o in (float("inf"), float("-inf"))):
        return repr(o)
    if isinstance(o, (str, int, float, bool)) or o is None:
        return o
    return repr(o)


def load_findings(pid: str) -> list:
    if not FINDINGS_FILE.exists():
        return []
    data = json.loads(FINDINGS_FILE.read_text())
    return [f for f in data.get("findings", []) if f.get("property") == pid]


def _matches(match: dict, case: dict) -> bool:
    """A known finding matches a violation iff every key of `match` is present in the violation's `key` record with
    an equal value.  Keys are the specific input / call site / history, so another violation of the same property
    does not match."""
    for k, v in match.items():
        if k not in case or _jsonable(case[k]) != v:
            return False
    return True


class Report:
    def __init__(self, pid: str, tier_: str, level: str):
        self.pid, self.tier, self.level = pid, tier_, level
        self.t0 = time.time()
        self.seed = seed()
        self.cov: dict = {"samples": []}
        self.assumptions: list = []
        self.violations: list = []     # (key dict, message, replay path)
        self.known_hits: list = []
        self.notes: list = []
        self.distinct: set = set()
        self.evaluations = 0
        self.machinery: list = []
        self.findings = load_findings(pid)
        Report.current = self          # main_guard finishes this report if the harness crashes after violations were found

    # ---- counting -------------------------------------------------------------------------------------------
    def count(self, n: int = 1, nontrivial_key=None):
        """One judged evaluation; `nontrivial_key` (hashable) is given iff the case is non-trivial by the rule."""
        self.evaluations += n
        if nontrivial_key is not None:
            self.distinct.add(nontrivial_key)

    def add(self, key: str, n: int = 1):
        self.cov[key] = self.cov.get(key, 0) + n

    def set(self, key: str, value):
        self.cov[key] = value

    def sample(self, case, limit: int = 6):
        if len(self.cov["samples"]) < limit:
            self.cov["samples"].append(_jsonable(case))

    def note(self, msg: str):
        if msg not in self.notes:
            self.notes.append(msg)
            if len(self.notes) <= 8:
                print(f"NOTE {msg}", flush=True)
            elif len(self.notes) == 9:
                print("NOTE (further notes are recorded in the evidence file only)", flush=True)

    def assume(self, text: str):
        if text not in self.assumptions:
            self.assumptions.append(text)

    def machinery_failure(self, msg: str):
        self.machinery.append(msg)
        print(f"MACHINERY-FAILURE property={self.pid} {msg}", file=sys.stderr, flush=True)

    # ---- verdicts -------------------------------------------------------------------------------------------
    def violation(self, key: dict, message: str, replay: dict | None = None):
        """`key` identifies the failing input / call site / history (matched against known findings)."""
        key = _jsonable(key)
        for f in self.findings:
            if f.get("status") == "known" and _matches(f.get("match", {}), key):
                if f["id"] not in [k[0] for k in self.known_hits]:
                    self.known_hits.append((f["id"], f.get("what", message)))
                return
        if len(self.violations) >= 25:       # enough to act on; keep the output readable
            self.violations.append((key, message, None))
            return
        if any(v[0] == key and v[1] == message for v in self.violations):
            return
        payload = {"property": self.pid, "key": key, "message": message, "replay": _jsonable(replay or {})}
        h = hashlib.sha1(json.dumps(payload, sort_keys=True).encode()).hexdigest()[:12]
        d = VERIF / "replays" / self.pid
        d.mkdir(parents=True, exist_ok=True)
        path = d / f"{h}.json"
        path.write_text(json.dumps(payload, indent=1, sort_keys=True))
        self.violations.append((key, message, str(path)))
        print(f"VIOLATION property={self.pid} replay={path}", flush=True)
        print(f"  detail: {message}", flush=True)

    # ---- end ------------------------------------------------------------------------------------------------
    def finish(self) -> int:
        for fid, what in self.known_hits:
            print(f"KNOWN-FINDING: property={self.pid} {fid}: {what}", flush=True)
        cov = dict(self.cov)
        if not cov.get("samples"):
            cov["samples"] = [{"note": "no case was sampled in this run (replay of a single stored case)"}]
        cov.setdefault("evaluations", self.evaluations)
        cov.setdefault("distinct_nontrivial", len(self.distinct))
        cov.setdefault("rule", "")
        if self.notes:
            cov["notes"] = self.notes[:60]
            cov["notes_total"] = len(self.notes)
        if self.known_hits:
            cov["known_findings_hit"] = [k[0] for k in self.known_hits]
        ev = {
            "property_id": self.pid, "tier": self.tier, "seed": self.seed, "level": self.level,
            "coverage": _jsonable(cov), "assumptions": self.assumptions,
            "wall_s": round(time.time() - self.t0, 2), "violations": len(self.violations),
        }
        status = 0
        if self.machinery:
            status = 2
            ev["coverage"]["machinery_failures"] = self.machinery[:10]
        if self.violations:          # a violation that was found stands, whatever else went wrong in the run
            status = 1
        try:
            jsonschema.validate(ev, SCHEMA)
        except jsonschema.ValidationError as e:          # an evidence file that would not validate is a machinery bug
            print(f"MACHINERY-FAILURE property={self.pid} evidence does not validate: {e.message}", file=sys.stderr)
            status = status or 2
        out = VERIF / "evidence"
        out.mkdir(exist_ok=True)
        (out / f"{self.pid}.json").write_text(json.dumps(ev, indent=1))
        what = "held on everything explored" if status == 0 else ("VIOLATED" if status == 1 else "MACHINERY FAILURE")
        print(f"[{self.pid}] {what}: tier={self.tier} seed={self.seed} evaluations={cov.get('evaluations')} "
              f"distinct_nontrivial={cov.get('distinct_nontrivial')} states={cov.get('states', '-')} "
              f"traces={cov.get('traces_validated_against_impl', '-')} wall={ev['wall_s']}s", flush=True)
        return status


def main_guard(pid: str, fn):
    """Run a harness main; any unexpected exception is a machinery failure (exit 2), not a violation."""
    try:
        return fn()
    except SystemExit:
        raise
    except BaseException:  # noqa: BLE001
        traceback.print_exc()
        print(f"MACHINERY-FAILURE property={pid} harness crashed", file=sys.stderr)
        rep = getattr(Report, "current", None)
        if rep is not None and rep.violations:      # violations already reported stand: they take precedence in the exit status
            try:
                rep.machinery.append("the harness crashed after these violations were reported")
                return rep.finish()
            except BaseException:  # noqa: BLE001
                return 1
        return 2
