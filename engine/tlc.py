"""Run TLC on a module of /verif/tla and parse what it says.

One place that knows how TLC is invoked (always under `timeout`, private metadir,
-noGenerateSpecTE), how JSON cases printed by a spec are recovered
(`PrintT("CASE " \\o ToJson(..))` -> one line, a JSON string containing JSON), how
statistics and `-coverage 1` action counts are read, and how a batch of recorded traces is
validated by a Trace_* module (`<<"TRACE", tid, reached, expected>>` lines).

Exit policy (DESIGN section 2): anything that goes wrong here is a *machinery* failure and
raises TLCError; the callers turn that into exit status 2, never into a VIOLATION.
"""

from __future__ import annotations

import json
import os
import re
import shutil
import subprocess
import tempfile
import time
from dataclasses import dataclass, field
from pathlib import Path

VERIF = Path(__file__).resolve().parent.parent
TLA_DIR = VERIF / "tla"
JAR = "/opt/veriftools/tla/tla2tools.jar:/opt/veriftools/tla/CommunityModules-deps.jar"


class TLCError(RuntimeError):
    """TLC / JVM / parse failure: machinery, not a property verdict."""


@dataclass
class TLCResult:
    ok: bool                       # TLC finished with "No error has been found"
    violated: str | None           # name of the violated invariant / property, if any
    generated: int = 0
    distinct: int = 0
    depth: int = 0
    cases: list = field(default_factory=list)      # parsed CASE payloads
    tagged: dict = field(default_factory=dict)     # other "TAG {json}" payloads by tag
    tuples: list = field(default_factory=list)     # parsed <<"TRACE", a, b, c>> style lines
    actions: dict = field(default_factory=dict)    # action name -> (states found, distinct)
    wall_s: float = 0.0
    stdout: str = ""
    cmd: str = ""


_STATS = re.compile(r"^(\d+) states generated, (\d+) distinct states found", re.M)
_DEPTH = re.compile(r"The depth of the complete state graph search is (\d+)")
_SIMSTAT = re.compile(r"The number of states generated: (\d+)")
_ACTION = re.compile(r"^<(\w+) line \d+, col \d+ to line \d+, col \d+ of module (\w+)>: (\d+):(\d+)", re.M)
_INV = re.compile(r"Error: Invariant (\w+) is violated")
_PROP = re.compile(r"Error: (?:Action property|Temporal properties?) ?(\w*)")
_TUPLE = re.compile(r'^<<"([A-Z_]+)"((?:, *-?\d+)+)>>$')


def _workdir() -> Path:
    base = "/dev/shm" if os.path.isdir("/dev/shm") else tempfile.gettempdir()
    return Path(tempfile.mkdtemp(prefix="flowjax-verif-tlc-", dir=base))


def run(
    module: str,
    cfg: str,
    *,
    workers: int | str = "auto",
    env: dict | None = None,
    timeout: int = 900,
    simulate: str | None = None,
    depth: int | None = None,
    seed: int | None = None,
    coverage: bool = True,
    extra_files: dict | None = None,
    jvm: tuple = (),
    keep: bool = False,
) -> TLCResult:
    """Run `module`.tla with config `cfg` (file names inside /verif/tla).

    extra_files: {name: text} written next to the copied modules (generated MC wrappers,
    trace files).  env: extra environment (TRACE_FILE etc.; IOEnv reads it).
    """
    wd = _workdir()
    try:
        for f in TLA_DIR.iterdir():
            if f.suffix in (".tla", ".cfg"):
                shutil.copy(f, wd / f.name)
        for name, text in (extra_files or {}).items():
            (wd / name).write_text(text)
        cmd = ["timeout", str(timeout), "java", "-XX:+UseParallelGC", "-Xmx24g", "-Xss512m", *jvm, "-cp", JAR, "tlc2.TLC",
               "-workers", str(workers), "-metadir", str(wd / "meta"), "-noGenerateSpecTE",
               "-config", cfg]
        if coverage and simulate is None:
            cmd += ["-coverage", "1"]
        if simulate is not None:
            cmd += ["-simulate", simulate]
        if depth is not None:
            cmd += ["-depth", str(depth)]
        if seed is not None:
            cmd += ["-seed", str(seed)]
        cmd.append(module if module.endswith(".tla") else module + ".tla")
        e = dict(os.environ)
        e.update({k: str(v) for k, v in (env or {}).items()})
        t0 = time.time()
        p = subprocess.run(cmd, cwd=wd, env=e, stdout=subprocess.PIPE, stderr=subprocess.STDOUT, text=True)
        wall = time.time() - t0
        out = p.stdout
        res = parse(out)
        res.wall_s = wall
        res.cmd = " ".join(cmd[2:])
        if p.returncode == 124:
            raise TLCError(f"TLC timed out after {timeout}s: {module} {cfg}\n{out[-2000:]}")
        if not res.ok and res.violated is None:
            i = out.find("Semantic errors")
            detail = out[i:i + 1500] if i >= 0 else out[-3000:]
            raise TLCError(f"TLC failed (rc={p.returncode}) on {module} {cfg}:\n{detail}")
        return res
    finally:
        if not keep:
            shutil.rmtree(wd, ignore_errors=True)


def parse(out: str) -> TLCResult:
    ok = "Model checking completed. No error has been found." in out or (
        "Finished in" in out and "Error:" not in out and "simulation" in out.lower())
    violated = None
    m = _INV.search(out)
    if m:
        violated = m.group(1)
    elif "is violated" in out or "Temporal properties were violated" in out:
        m = re.search(r"Error: (.*(?:violated).*)", out)
        violated = m.group(1) if m else "property"
    elif "Error: Deadlock reached" in out:
        violated = "Deadlock"
    elif "Error: Assumption" in out and "is false" in out:
        violated = "Assumption"
    res = TLCResult(ok=ok and violated is None, violated=violated, stdout=out)
    ms = _STATS.findall(out)
    if ms:
        res.generated, res.distinct = int(ms[-1][0]), int(ms[-1][1])
    else:
        m = _SIMSTAT.search(out)
        if m:
            res.generated = int(m.group(1))
    m = _DEPTH.search(out)
    if m:
        res.depth = int(m.group(1))
    for name, mod, a, b in _ACTION.findall(out):
        res.actions[name] = (int(a), int(b))
    for line in out.splitlines():
        if line.startswith('"') and line.endswith('"') and len(line) > 2:
            try:
                s = json.loads(line)
            except ValueError:
                continue
            tag, _, payload = s.partition(" ")
            if not payload or not tag.isupper():
                continue
            try:
                val = json.loads(payload)
            except ValueError:
                continue
            if tag == "CASE":
                res.cases.append(val)
            else:
                res.tagged.setdefault(tag, []).append(val)
        elif line.startswith("<<\""):
            m = _TUPLE.match(line.strip())
            if m:
                res.tuples.append((m.group(1), *[int(v) for v in m.group(2).replace(" ", "").split(",")[1:]]))
    return res


def sany(module: str) -> None:
    """Parse-check a module (used by setup)."""
    p = subprocess.run(["java", "-cp", JAR, "tla2sany.SANY", module], cwd=TLA_DIR, stdout=subprocess.PIPE,
                       stderr=subprocess.STDOUT, text=True)
    if p.returncode != 0 or "Semantic errors" in p.stdout or "Parsing or semantic analysis failed" in p.stdout \
            or "Fatal errors" in p.stdout or "Could not parse" in p.stdout:
        raise TLCError(f"SANY rejected {module}:\n{p.stdout[-3000:]}")


def validate_traces(module: str, cfg: str, traces: list, *, timeout: int = 900, env: dict | None = None,
                    dfs: bool = True) -> tuple[list, TLCResult]:
    """Batch trace validation.  `traces` is a list of JSON-able records; they are written as ndjson and read by
    the Trace_* module through IOEnv.TRACE_FILE.  The module prints <<"TRACE", tid, reached, expected>> for every
    trace in a POSTCONDITION.  Returns [(tid, reached, expected)] (tid 1-based) and the raw result.

    A violated INVARIANT in a trace config is reported through res.violated by the caller."""
    wd = _workdir()
    try:
        tf = wd / "traces.ndjson"
        with open(tf, "w") as f:
            for t in traces:
                f.write(json.dumps(t, separators=(",", ":")) + "\n")
        e = {"TRACE_FILE": str(tf)}
        e.update(env or {})
        jvm = ("-Dtlc2.tool.queue.IStateQueue=StateDeque",) if dfs else ()
        res = run(module, cfg, workers=1, env=e, timeout=timeout, coverage=False, jvm=jvm)
        rows = [(t[1], t[2], t[3]) for t in res.tuples if t[0] == "TRACE"]
        seen = {r[0] for r in rows}
        if res.violated is None and seen != set(range(1, len(traces) + 1)):
            raise TLCError(f"trace validation of {module} reported {len(seen)} of {len(traces)} traces\n"
                           + res.stdout[-3000:])
        return rows, res
    finally:
        shutil.rmtree(wd, ignore_errors=True)
