"""Harness-process-only shim (DESIGN section 8): in this sandbox building a WeightNormalization under eqx.filter_vmap
trips equinox 0.13.8's init=False check on a tracer ('NoneType' object is not callable), so the two factories
block_neural_autoregressive_flow and triangular_spline_flow cannot be constructed.  The function patched only decides
whether equinox issues a warning.  Results obtained under the shim are marked as such in the evidence; if the shim
cannot be applied the factory cases are skipped with a note, never reported as violations."""

_applied = None


def apply() -> bool:
    global _applied
    if _applied is not None:
        return _applied
    try:
        import equinox._module._module as m
        orig = m.is_inexact_array_like

        def tolerant(x):
            try:
                return orig(x)
            except TypeError:
                return False

        m.is_inexact_array_like = tolerant
        _applied = True
    except Exception:  # noqa: BLE001
        _applied = False
    return _applied
