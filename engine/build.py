"""spec JSON -> real flowjax objects: the only place that knows constructor names (DESIGN 3).

Programs are the records of tla/Combinators.tla.  Leaf parameters are the spec's AffE / AffB / CW / EmbW tables,
installed exactly (the Affine scale wrapper is replaced by a plain array with eqx.tree_at, which the Affine docstring
documents as the supported way to use another parameterisation), so dyadic arithmetic is exact in float64.
"""

from __future__ import annotations

import equinox as eqx
import jax.numpy as jnp
import numpy as np

U = 1024


def aff_e(i, k):
    return (i + k) % 3


def aff_b(i, k):
    return U * (5 * i + k + 1)


def cw(i, k, m):
    return ((k + 2 * m + i) % 4) + 1


def emb_w(m, r):
    return ((m + r) % 2) + 1


def tw(i, r, c):
    return ((i + 2 * r + 3 * c) % 5) - 2


def shape_of(s):
    return tuple(int(v) for v in s)


def cshape_of(cs):
    return None if list(cs) == [-1] else tuple(int(v) for v in cs)


class LinearInt(eqx.Module):
    """cond (any shape) -> out_shape, an integer linear image of the flattened condition."""
    W: jnp.ndarray
    out_shape: tuple = eqx.field(static=True)

    def __call__(self, c):
        return (self.W @ jnp.ravel(c)).reshape(self.out_shape)


def mk_aff(i: int, shape):
    from flowjax.bijections import Affine
    n = int(np.prod(shape)) if shape else 1
    loc = np.array([aff_b(i, k) for k in range(n)], dtype=float).reshape(shape)
    scale = np.array([2.0 ** aff_e(i, k) for k in range(n)], dtype=float).reshape(shape)
    a = Affine(jnp.asarray(loc), jnp.asarray(scale))
    return eqx.tree_at(lambda t: t.scale, a, jnp.asarray(scale))


def _aff_from_arrays(loc, scale):
    from flowjax.bijections import Affine
    a = Affine(loc, jnp.ones_like(scale))         # the constructor's positivity check never sees the exact scale
    return eqx.tree_at(lambda t: t.scale, a, scale)


def aff_arrays(ids, shape):
    n = int(np.prod(shape)) if shape else 1
    locs = np.stack([np.array([aff_b(i, k) for k in range(n)], dtype=float).reshape(shape) for i in ids])
    scales = np.stack([np.array([2.0 ** aff_e(i, k) for k in range(n)], dtype=float).reshape(shape) for i in ids])
    return jnp.asarray(locs), jnp.asarray(scales)


def mk_index(idx):
    k = idx["kind"]
    if k == "int":
        return int(idx["i"])
    if k == "slice":
        return slice(int(idx["lo"]), int(idx["hi"]))
    if k == "sslice":
        n = lambda v: None if int(v) == -99 else int(v)  # noqa: E731
        return slice(n(idx["lo"]), n(idx["hi"]), int(idx["step"]))
    if k == "intarr":
        return jnp.asarray([int(v) for v in idx["rows"]])
    if k == "boolarr":
        return None      # needs the total extent: built in mk()
    if k == "tuple":
        return (int(idx["i"]), int(idx["j"]))
    raise ValueError(k)


def mk(q):
    """Build the real bijection for program q.  Raises whatever the constructors raise."""
    from flowjax import bijections as bj
    k = q["k"]
    if k == "aff":
        return mk_aff(q["id"], shape_of(q["shape"]))
    if k == "cadd":
        shape, cs = shape_of(q["shape"]), shape_of(q["cs"])
        n, m = int(np.prod(shape)) if shape else 1, int(np.prod(cs)) if cs else 1
        W = np.array([[cw(q["id"], kk, mm) for mm in range(m)] for kk in range(n)], dtype=float)
        return bj.AdditiveCondition(LinearInt(jnp.asarray(W), shape), shape, cs)
    if k in ("tril", "triu"):
        # the constructor's own parameterisation (mask applied at unwrap, the other triangle filled with values that must
        # be ignored); only the softplus-reparameterised diagonal is replaced by exact powers of two
        n = shape_of(q["shape"])[0]
        M = np.full((n, n), 7.0)
        for i in range(n):
            for j in range(n):
                if (j < i) if k == "tril" else (j > i):
                    M[i, j] = tw(q["id"], i, j)
        loc = np.array([aff_b(q["id"], i) for i in range(n)], dtype=float)
        ta = bj.TriangularAffine(jnp.asarray(loc), jnp.eye(n), lower=(k == "tril"))
        # the matrix is set after construction, as training would: a mask applied only in the constructor is not enough
        diag = np.array([2.0 ** aff_e(q["id"], i) for i in range(n)])
        try:
            return eqx.tree_at(lambda t: (t.triangular.kwargs["diag"], t.triangular.kwargs["arr"]), ta, (jnp.asarray(diag), jnp.asarray(M)))
        except Exception:  # noqa: BLE001   the parameterisation is an implementation detail; the documented way is to replace .triangular
            T = (np.tril(M, -1) if k == "tril" else np.triu(M, 1)) + np.diag(diag)
            return eqx.tree_at(lambda t: t.triangular, ta, jnp.asarray(T))
    if k == "perm":
        shape = shape_of(q["shape"])
        n = int(np.prod(shape)) if shape else 1
        perm = np.array([(kk + 1) % n for kk in range(n)]).reshape(shape)      # y_k = x_{(k+1) mod n}
        return bj.Permute(perm)
    if k == "flip":
        return bj.Flip(shape_of(q["shape"]))
    if k == "ident":
        return bj.Identity(shape_of(q["shape"]))
    if k == "scan":
        locs, scales = aff_arrays(q["ids"], shape_of(q["shape"]))
        return bj.Scan(eqx.filter_vmap(_aff_from_arrays)(locs, scales))
    if k == "chain":
        return bj.Chain([mk(p) for p in q["parts"]])
    if k == "invert":
        return bj.Invert(mk(q["p"]))
    if k == "vmap":
        cax = None if q["cax"] == -9 else int(q["cax"])
        if q["mapped"]:
            inner = q["p"]
            ids = [inner["id"] + 10 * i for i in range(q["n"])]
            if inner["k"] == "cadd":              # a conditional child with vectorised parameters
                shape, cs = shape_of(inner["shape"]), shape_of(inner["cs"])
                n, m = int(np.prod(shape)) if shape else 1, int(np.prod(cs)) if cs else 1
                Ws = jnp.asarray(np.array([[[cw(i, kk, mm) for mm in range(m)] for kk in range(n)] for i in ids], dtype=float))
                b = eqx.filter_vmap(lambda W: bj.AdditiveCondition(LinearInt(W, shape), shape, cs))(Ws)
                return bj.Vmap(b, in_axes=eqx.if_array(0), in_axes_condition=cax)
            locs, scales = aff_arrays(ids, shape_of(inner["shape"]))
            b = eqx.filter_vmap(_aff_from_arrays)(locs, scales)
            return bj.Vmap(b, in_axes=eqx.if_array(0), in_axes_condition=cax)
        return bj.Vmap(mk(q["p"]), axis_size=int(q["n"]), in_axes_condition=cax)
    if k == "concat":
        return bj.Concatenate([mk(p) for p in q["parts"]], axis=int(q["axis"]))
    if k == "stack":
        return bj.Stack([mk(p) for p in q["parts"]], axis=int(q["axis"]))
    if k == "partial":
        idx = q["idx"]
        shape = shape_of(q["shape"])
        if idx["kind"] == "boolarr":
            mask = np.zeros(shape[0], dtype=bool)
            mask[[int(v) for v in idx["rows"]]] = True
            ix = jnp.asarray(mask)
        else:
            ix = mk_index(idx)
        return bj.Partial(mk(q["p"]), ix, shape)
    if k == "reshape":
        return bj.Reshape(mk(q["p"]), shape_of(q["shape"]), cshape_of(q["cs"]))
    if k == "embed":
        inner = mk(q["p"])
        raw = shape_of(q["rawcs"])
        ics = inner.cond_shape
        m, r = int(np.prod(ics)) if ics else 1, int(np.prod(raw)) if raw else 1
        W = np.array([[emb_w(mm, rr) for rr in range(r)] for mm in range(m)], dtype=float)
        return bj.EmbedCondition(inner, LinearInt(jnp.asarray(W), ics), raw)
    raise ValueError(f"unknown program kind {k}")


def arr(flat, shape):
    return jnp.asarray(np.array(flat, dtype=float).reshape(shape))
