"""code -> spec: validate recorded executions against a Trace_* module, in two layers, with total verdicts.

1. all traces under Layer = "I" (the implementation-shaped guards as well).  Accepted => done.
2. traces rejected by I are re-run under Layer = "P" (only the guards that quote the property).
     accepted by P  => NOTE model-drift (exit status unaffected)
     rejected by P  => the failing clause is named by guard ablation (re-run with Skip = {g} for every P guard g;
                       the guard whose removal lets TLC get further is the failing one), then VIOLATION.
A violated INVARIANT of the trace cfg is attributed to the trace TLC was exploring (tid of the error state).
"""

from __future__ import annotations

import re

from . import tlc


def _cfg_text(base_cfg: str, layer: str, skip: list) -> str:
    text = (tlc.TLA_DIR / base_cfg).read_text()
    text = re.sub(r'Layer = "[IP]"', f'Layer = "{layer}"', text)
    skipset = "{" + ", ".join(f'"{s}"' for s in skip) + "}"
    text = re.sub(r"Skip = \{[^}]*\}", f"Skip = {skipset}", text)
    return text


def _run(module: str, base_cfg: str, traces: list, layer: str, skip: list, timeout: int):
    """Returns {index in traces: (reached, expected)}, {index: invariant name}."""
    import hashlib
    name = f"_gen_{layer}_{hashlib.sha1('_'.join(skip).encode()).hexdigest()[:10] if skip else 'none'}.cfg"
    idx = list(range(len(traces)))
    inv_viol: dict = {}
    out: dict = {}
    while idx:
        batch = [traces[i] for i in idx]
        wd_files = {name: _cfg_text(base_cfg, layer, skip)}
        rows, res = _validate(module, name, batch, wd_files, timeout)
        if res.violated is None:
            for tid, reached, expected in rows:
                out[idx[tid - 1]] = (reached, expected)
            break
        # invariant violated: attribute to the trace being explored, drop it, re-run the rest
        m = re.findall(r"/\\ tid = (\d+)", res.stdout)
        if not m:
            raise tlc.TLCError("invariant violated in trace validation but no tid in the error trace\n"
                               + res.stdout[-2000:])
        bad = int(m[-1])
        inv_viol[idx[bad - 1]] = res.violated
        del idx[bad - 1]
    return out, inv_viol


def _validate(module, cfgname, batch, files, timeout):
    import json
    import shutil
    wd = tlc._workdir()
    try:
        tf = wd / "traces.ndjson"
        with open(tf, "w") as f:
            for t in batch:
                f.write(json.dumps(t, separators=(",", ":")) + "\n")
        res = tlc.run(module, cfgname, workers=1, env={"TRACE_FILE": str(tf)}, timeout=timeout, coverage=False,
                      jvm=("-Dtlc2.tool.queue.IStateQueue=StateDeque",), extra_files=files)
        rows = [(t[1], t[2], t[3]) for t in res.tuples if t[0] == "TRACE"]
        if res.violated is None and {r[0] for r in rows} != set(range(1, len(batch) + 1)):
            raise tlc.TLCError(f"trace validation of {module} reported {len(rows)} of {len(batch)} traces\n"
                               + res.stdout[-3000:])
        return rows, res
    finally:
        shutil.rmtree(wd, ignore_errors=True)


def check(report, module: str, base_cfg: str, traces: list, p_guards: list, *, pid: str, describe=None,
          timeout: int = 900, chunk: int = 400) -> dict:
    """Validate `traces`; report violations / drift into `report`.  Returns statistics."""
    stats = {"traces": len(traces), "accepted_I": 0, "drift": 0, "rejected_P": 0, "tlc_states": 0}
    describe = describe or (lambda t: t.get("cfg", {}))
    for start in range(0, len(traces), chunk):
        part = traces[start:start + chunk]
        resI, invI = _run(module, base_cfg, part, "I", [], timeout)
        rejected = [i for i, (r, e) in resI.items() if r < e] + list(invI)
        stats["accepted_I"] += len(part) - len(rejected)
        if not rejected:
            continue
        sub = [part[i] for i in rejected]
        resP, invP = _run(module, base_cfg, sub, "P", [], timeout)
        still = []
        for j, i in enumerate(rejected):
            if j in invP:
                still.append(j)
            elif resP[j][0] < resP[j][1]:
                still.append(j)
            else:
                stats["drift"] += 1
                report.note(f"model-drift {module}: a trace is rejected by the implementation layer at event "
                            f"{resI.get(i, (0, 0))[0]} but satisfies every property-layer guard ({describe(part[i])})")
        if not still:
            continue
        # name the failing clause by ablation
        subsub = [sub[j] for j in still]
        base = {k: (resP[j][0] if j in resP else 0) for k, j in enumerate(still)}
        named: dict = {k: None for k in range(len(still))}
        for k, j in enumerate(still):
            if j in invP:
                named[k] = f"invariant {invP[j]}"
        todo = [k for k in named if named[k] is None]
        for g in p_guards:
            if not todo:
                break
            r, _inv = _run(module, base_cfg, [subsub[k] for k in todo], "P", [g], timeout)
            for pos, k in enumerate(list(todo)):
                if pos in r and r[pos][0] > base[k]:
                    named[k] = f"guard {g}"
                elif pos in _inv:       # without the guard TLC got far enough to violate an invariant of the cfg
                    named[k] = f"guard {g} (and invariant {_inv[pos]})"
            todo = [k for k in todo if named[k] is None]
        # several clauses failing at the same event: isolate (only guard g enabled) and name every failing one
        todo = [k for k in named if named[k] is None]
        if todo:        # rejected even with every guard switched off: the event sequence itself does not fit the machine
            r, _inv = _run(module, base_cfg, [subsub[k] for k in todo], "P", list(p_guards), timeout)
            for pos, k in enumerate(list(todo)):
                if pos in r and r[pos][0] < r[pos][1]:
                    named[k] = "structure of the event sequence (no action of the specification matches the next event)"
            todo = [k for k in todo if named[k] is None]
        if todo:
            failing = {k: [] for k in todo}
            for g in p_guards:
                others = [h for h in p_guards if h != g]
                r, _inv = _run(module, base_cfg, [subsub[k] for k in todo], "P", others, timeout)
                for pos, k in enumerate(todo):
                    if pos in _inv or (pos in r and r[pos][0] < r[pos][1] and r[pos][0] <= base[k]):
                        failing[k].append(g)
            for k in todo:
                if failing[k]:
                    named[k] = "guards " + " + ".join(failing[k])
        for k, j in enumerate(still):
            t = subsub[k]
            stats["rejected_P"] += 1
            clause = named[k] or "no single guard (structure of the event sequence)"
            reached = base[k]
            report.violation(
                key={"module": module, "clause": clause, **{f"cfg.{a}": b for a, b in describe(t).items()}},
                message=f"{module}: recorded execution rejected by the property layer: {clause}; last matched event "
                        f"index {max(reached - 1, 0)} of {len(t.get('ev', []))}; cfg={describe(t)}",
                replay={"trace": t, "clause": clause, "reached": reached})
    return stats
