"""Run per-case checks in worker processes (JAX on CPU is single-threaded per op; the replays are embarrassingly
parallel).  A worker gets a chunk of cases, calls `module.function(proxy, case)` for each, and returns the calls it
made on the proxy; the parent replays them on the real Report in the original order.  A worker that dies (e.g. the LLVM
"Cannot allocate memory" map-count exhaustion, DESIGN 3.2b) is a machinery failure, never a violation."""

from __future__ import annotations

import importlib
import multiprocessing as mp
import os
import traceback


class Proxy:
    def __init__(self, seed):
        self.calls = []
        self.seed = seed

    def count(self, n=1, nontrivial_key=None):
        self.calls.append(("count", (n, nontrivial_key)))

    def add(self, key, n=1):
        self.calls.append(("add", (key, n)))

    def sample(self, case, limit=6):
        if sum(1 for c in self.calls if c[0] == "sample") < limit:
            self.calls.append(("sample", (case, limit)))

    def note(self, msg):
        self.calls.append(("note", (msg,)))

    def violation(self, key, message, replay=None):
        self.calls.append(("violation", (key, message, replay)))

    def machinery_failure(self, msg):
        self.calls.append(("machinery_failure", (msg,)))

    def assume(self, text):
        self.calls.append(("assume", (text,)))


def _work(args):
    modname, fname, chunk, seed, x64, clear_every = args
    os.environ.setdefault("JAX_PLATFORMS", "cpu")
    try:
        import jax
        # explicitly either way: under spawn the child re-imports the parent's main module, which may have enabled x64
        jax.config.update("jax_enable_x64", bool(x64))
        mod = importlib.import_module(modname)
        fn = getattr(mod, fname)
        px = Proxy(seed)
        for i, case in enumerate(chunk):
            try:
                fn(px, case)
            except Exception:  # noqa: BLE001  an unexpected exception inside a per-case check is a harness bug
                px.machinery_failure(f"{modname}.{fname} crashed on a case: {traceback.format_exc()[-1500:]}")
            if clear_every and i % clear_every == clear_every - 1:
                import gc
                jax.clear_caches()
                gc.collect()
        return px.calls
    except BaseException:  # noqa: BLE001
        return [("machinery_failure", (f"worker failed: {traceback.format_exc()[-1500:]}",))]


def _child(conn, args):
    try:
        conn.send(_work(args))
    finally:
        conn.close()


def map_cases(rep, modname: str, fname: str, cases: list, *, nproc: int = 14, chunk: int = 24, x64: bool = True,
              clear_every: int = 40, maxtasks: int = 6, chunk_timeout: int = 2400):
    """Apply module.function(report, case) to every case, in parallel; results are merged into `rep` in case order.

    One process per chunk, watched by the parent: a worker that dies (XLA's CPU code has been seen to segfault on a few
    generated programs, and a dead worker makes multiprocessing.Pool wait for ever) or exceeds `chunk_timeout` has its chunk
    re-run case by case, each case in a process of its own; a case that kills its own process is skipped with a note --
    it cannot be evaluated in this environment, which is neither a violation nor evidence that the property holds."""
    import time
    from collections import deque
    if not cases:
        return
    ctx = mp.get_context("spawn")
    chunk = max(chunk, -(-len(cases) // (nproc * 8)))      # a process costs ~4 s to start (JAX import): at most ~8 rounds of nproc of them
    chunks = [cases[i:i + chunk] for i in range(0, len(cases), chunk)]
    pending = deque(((ci, 0), ch) for ci, ch in enumerate(chunks))
    nproc = max(1, min(nproc, len(chunks)))
    running, results = {}, {}
    while pending or running:
        while pending and len(running) < nproc:
            key, ch = pending.popleft()
            parent, child = ctx.Pipe(duplex=False)
            p = ctx.Process(target=_child, args=(child, (modname, fname, ch, rep.seed, x64, clear_every)), daemon=True)
            p.start()
            child.close()
            running[key] = (p, parent, ch, time.time())
        done = []
        for key, (p, conn, ch, t0) in running.items():
            got = None
            try:
                if conn.poll():
                    got = conn.recv()
            except (EOFError, OSError):
                got = None
            if got is not None:
                results[key] = got
                p.join(5)
                done.append(key)
            elif not p.is_alive() or time.time() - t0 > chunk_timeout:
                why = f"exit code {p.exitcode}" if not p.is_alive() else f"no result after {chunk_timeout} s"
                if p.is_alive():
                    p.kill()
                p.join(5)
                if len(ch) > 1:          # isolate the case: every case of the chunk again, alone
                    for j, case in enumerate(ch):
                        pending.append(((key[0], j + 1), [case]))
                    results[key] = []
                else:
                    desc = str(ch[0])[:300]
                    results[key] = [("note", (f"worker-crash {modname}.{fname}: the process evaluating this case died ({why}); case skipped: {desc}",)),
                                    ("add", ("cases_skipped_worker_crash", 1))]
                done.append(key)
        for key in done:
            running.pop(key)[1].close()
        if not done:
            time.sleep(0.05)
    crashed = sum(1 for calls in results.values() for name, args in calls if name == "add" and args[0] == "cases_skipped_worker_crash")
    if crashed > max(3, len(cases) // 50):     # not a stray crash of one generated program: the environment is broken
        rep.machinery_failure(f"{crashed} of {len(cases)} cases killed their worker process ({modname}.{fname}): nothing can be concluded")
    for key in sorted(results):
        for name, args in results[key]:
            getattr(rep, name)(*args)
