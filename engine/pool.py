"""Run per-case checks in worker processes (JAX on CPU is single-threaded per op; the replays are embarrassingly
parallel).  A worker gets a chunk of cases, calls `module.function(proxy, case)` for each, and returns the calls it
made on the proxy; the parent replays them on the real Report in the original order.  A worker that dies (e.g. the LLVM
"Cannot allocate memory" map-count exhaustion, DESIGN 3.2b) is a machinery failure, never a violation."""

from __future__ import annotations

import importlib
import multiprocessing as mp
import os
import traceback


class Proxy:
    def __init__(self, seed):
        self.calls = []
        self.seed = seed

    def count(self, n=1, nontrivial_key=None):
        self.calls.append(("count", (n, nontrivial_key)))

    def add(self, key, n=1):
        self.calls.append(("add", (key, n)))

    def sample(self, case, limit=6):
        if sum(1 for c in self.calls if c[0] == "sample") < limit:
            self.calls.append(("sample", (case, limit)))

    def note(self, msg):
        self.calls.append(("note", (msg,)))

    def violation(self, key, message, replay=None):
        self.calls.append(("violation", (key, message, replay)))

    def machinery_failure(self, msg):
        self.calls.append(("machinery_failure", (msg,)))

    def assume(self, text):
        self.calls.append(("assume", (text,)))


def _work(args):
    modname, fname, chunk, seed, x64, clear_every = args
    os.environ.setdefault("JAX_PLATFORMS", "cpu")
    try:
        import jax
        if x64:
            jax.config.update("jax_enable_x64", True)
        mod = importlib.import_module(modname)
        fn = getattr(mod, fname)
        px = Proxy(seed)
        for i, case in enumerate(chunk):
            try:
                fn(px, case)
            except Exception:  # noqa: BLE001  an unexpected exception inside a per-case check is a harness bug
                px.machinery_failure(f"{modname}.{fname} crashed on a case: {traceback.format_exc()[-1500:]}")
            if clear_every and i % clear_every == clear_every - 1:
                import gc
                jax.clear_caches()
                gc.collect()
        return px.calls
    except BaseException:  # noqa: BLE001
        return [("machinery_failure", (f"worker failed: {traceback.format_exc()[-1500:]}",))]


def map_cases(rep, modname: str, fname: str, cases: list, *, nproc: int = 14, chunk: int = 24, x64: bool = True,
              clear_every: int = 40, maxtasks: int = 6):
    """Apply module.function(report, case) to every case, in parallel; results are merged into `rep` in case order."""
    if not cases:
        return
    chunks = [cases[i:i + chunk] for i in range(0, len(cases), chunk)]
    nproc = max(1, min(nproc, len(chunks)))
    ctx = mp.get_context("spawn")
    with ctx.Pool(nproc, maxtasksperchild=maxtasks) as pool:
        results = pool.map(_work, [(modname, fname, ch, rep.seed, x64, clear_every) for ch in chunks], chunksize=1)
    for calls in results:
        for name, args in calls:
            getattr(rep, name)(*args)
