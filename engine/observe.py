"""Observation of the training loops through public extension points only (DESIGN 3.2).

* rows carry their index (column 0 of x; index + 1000 in column 0 of the condition)
* the "distribution" handed to fit_to_data / fit_to_variational_target is the pytree (theta, table):
  theta is the single trainable leaf, table an integer array (hence in the static half of the partition)
* the counting optimiser adds exactly 1 to every trainable leaf per update, so theta == number of updates
* the scripted loss returns table[theta]; a custom_vjp identity marks differentiated calls
* everything is logged with ordered host callbacks, so the log is the execution order even under jit
"""

from __future__ import annotations

import hashlib

import equinox as eqx
import jax
import jax.numpy as jnp
import jax.random as jr
import numpy as np
import optax


class Log:
    def __init__(self):
        self.ev: list = []
        self.keyids: dict = {}

    def kid(self, k) -> int:
        """Injective renaming of PRNG keys to small ints (TLC integers are 32-bit signed)."""
        b = np.asarray(k).tobytes()
        if b not in self.keyids:
            self.keyids[b] = len(self.keyids)
        return self.keyids[b]


def key_bytes(key):
    if jnp.issubdtype(key.dtype, jax.dtypes.prng_key):
        return jr.key_data(key)
    return key


def counting_optimizer(log: Log) -> optax.GradientTransformation:
    def init(params):
        return ()

    def update(grads, state, params=None):
        jax.debug.callback(lambda: log.ev.append({"k": "update"}), ordered=True)
        return jax.tree_util.tree_map(lambda g: jnp.ones_like(g), grads), state

    return optax.GradientTransformation(init, update)


def make_gradmark(log: Log):
    @jax.custom_vjp
    def gradmark(t):
        return t

    def fwd(t):
        jax.debug.callback(lambda: log.ev.append({"k": "diff"}), ordered=True)
        return t, None

    gradmark.defvjp(fwd, lambda _, g: (g,))
    return gradmark


def make_scripted_data_loss(log: Log, has_cond: bool):
    gradmark = make_gradmark(log)

    def loss_fn(params, static, x, condition=None, key=None):
        theta, table = eqx.combine(params, static)
        theta = gradmark(theta)

        def rec(xi, ci, k, th):
            log.ev.append({"k": "loss", "rows": np.asarray(xi).round().astype(int).tolist(),
                           "crows": (np.asarray(ci).round().astype(int) - 1000).tolist(),
                           "key": log.kid(k), "theta": int(round(float(th)))})

        c0 = condition[:, 0] if condition is not None else x[:, 1]
        jax.debug.callback(rec, x[:, 0], c0, key_bytes(key), jax.lax.stop_gradient(theta), ordered=True)
        idx = jnp.clip(jnp.round(jax.lax.stop_gradient(theta)).astype(int), 0, table.shape[0] - 1)
        return table[idx].astype(theta.dtype) + 0.0 * theta

    return loss_fn


def fold(ev: list) -> list:
    """diff + loss -> loss{diff: true}; grad := the call is followed by an optimiser update (a gradient step)."""
    out, pending = [], False
    for e in ev:
        if e["k"] == "diff":
            pending = True
        elif e["k"] == "loss":
            e = dict(e)
            e["diff"] = pending
            e["grad"] = False
            pending = False
            out.append(e)
        else:
            if out and out[-1]["k"] == "loss":
                out[-1]["grad"] = True
            out.append(dict(e))
    return out


def tagged_data(n: int, has_cond: bool):
    idx = np.arange(n, dtype=float)
    x = np.stack([idx, idx + 1000.0, idx * 7 + 3], axis=1)          # column 1 doubles as the "condition tag"
    cond = np.stack([idx + 1000.0, -idx], axis=1) if has_cond else None
    return x, cond


class DataSession:
    """Re-usable observation session for fit_to_data: the loss function and optimiser objects are created once so
    that the jitted `step` is compiled once per batch shape, not once per run."""

    def __init__(self):
        self.log = Log()
        self.loss = {hc: make_scripted_data_loss(self.log, hc) for hc in (True, False)}
        self.opt = counting_optimizer(self.log)

    def run(self, *, n, batch, val_prop, max_epochs, patience, return_best, script_by_epoch, has_cond=True, seed=0,
            fit_to_data=None, table_size=None):
        """Run the real fit_to_data with tagged rows, scripted loss and counting optimiser; return one trace record.

        script_by_epoch: validation loss of epoch e (1-based list); training losses get values that never matter."""
        if fit_to_data is None:
            from flowjax.train import fit_to_data
        log = self.log
        log.ev.clear()
        log.keyids.clear()
        key = jr.key(seed)
        log.kid(key_bytes(key))                       # the caller's key is id 0
        nval = round(val_prop * n)
        n_train = n - nval
        upe = n_train // min(batch, n_train) if n_train > 0 else 0
        size = table_size or (max_epochs * max(upe, 1) + 2)
        table = np.array([10_000 + th for th in range(size)], dtype=np.int64)
        for e, v in enumerate(script_by_epoch, start=1):
            if e * upe < size:
                table[e * upe] = v
        x, cond = tagged_data(n, has_cond)
        dist = (jnp.asarray(0.0), jnp.asarray(table))
        out, losses = fit_to_data(key, dist, x, condition=cond, loss_fn=self.loss[has_cond], max_epochs=max_epochs,
                                  max_patience=patience, batch_size=batch, val_prop=val_prop,
                                  optimizer=self.opt, return_best=return_best, show_progress=False)
        jax.effects_barrier()
        ev = fold(log.ev)
        return {
            "cfg": {"n": n, "batch": batch, "nval": nval, "maxep": max_epochs, "pat": patience,
                    "rb": bool(return_best), "hascond": bool(has_cond), "vp": val_prop, "seed": seed},
            "script": [int(v) for v in table],
            "ev": ev,
            "ret": {"theta": int(round(float(out[0]))), "ntl": len(losses["train"]), "nvl": len(losses["val"]),
                    "val": [int(round(float(v))) for v in losses["val"]]},
        }


def run_fit_to_data_scripted(**kw):
    return DataSession().run(**kw)


# ---------------------------------------------------------------------------------------------------------------
def make_scripted_variational_loss(log: Log):
    gradmark = make_gradmark(log)

    def loss_fn(params, static, key):
        theta, table = eqx.combine(params, static)
        theta = gradmark(theta)

        def rec(k, th):
            log.ev.append({"k": "loss", "key": log.kid(k), "theta": int(round(float(th)))})

        jax.debug.callback(rec, key_bytes(key), jax.lax.stop_gradient(theta), ordered=True)
        idx = jnp.clip(jnp.round(jax.lax.stop_gradient(theta)).astype(int), 0, table.shape[0] - 1)
        v = table[idx].astype(theta.dtype)
        return jnp.where(table[idx] == 0, jnp.nan, v) + 0.0 * theta          # script value 0 stands for a NaN loss

    return loss_fn


class VariationalSession:
    def __init__(self):
        self.log = Log()
        self.loss = make_scripted_variational_loss(self.log)
        self.opt = counting_optimizer(self.log)

    def run(self, *, steps, return_best, script, seed=0, fit=None, table_size=None):
        """script[i] is the loss of the parameters after i updates (0-based)."""
        if fit is None:
            from flowjax.train import fit_to_variational_target as fit
        log = self.log
        log.ev.clear()
        log.keyids.clear()
        key = jr.key(seed)
        log.kid(key_bytes(key))
        size = table_size or (steps + 2)
        table = np.array([10_000 + i for i in range(size)], dtype=np.int64)
        for i, v in enumerate(script):
            if i < size:
                table[i] = v
        dist = (jnp.asarray(0.0), jnp.asarray(table))
        out, losses = fit(key, dist, self.loss, steps=steps, optimizer=self.opt, return_best=return_best,
                          show_progress=False)
        jax.effects_barrier()
        return {
            "cfg": {"steps": steps, "rb": bool(return_best), "seed": seed},
            "script": [int(v) for v in table],
            "ev": fold(log.ev),
            "ret": {"theta": int(round(float(out[0]))), "nl": len(losses),
                    "losses": [0 if float(v) != float(v) else int(round(float(v))) for v in losses]},
        }


def run_fit_variational_scripted(**kw):
    return VariationalSession().run(**kw)


def digest(tree) -> str:
    """SHA-1 of the bytes of every array leaf (frozen-parameter identity, C12)."""
    h = hashlib.sha1()
    for leaf in jax.tree_util.tree_leaves(tree):
        if hasattr(leaf, "dtype"):
            h.update(np.asarray(leaf).tobytes())
    return h.hexdigest()


# ---------------------------------------------------------------------------------------------------------------
class RealDataSession:
    """Trace a REAL training run of fit_to_data (a real flow, the library's own MaximumLikelihoodLoss, a real optimiser).

    Rows are identified by looking their first coordinate up in the original data set (distinct random rows => lossless),
    parameters by a digest of the trainable leaves at every loss call; the number of optimiser updates is counted by a
    logging wrapper around the optimiser; validation losses are rank-transformed (order and ties preserved) into the
    `script` the trace specification expects, and the epoch whose parameters were returned is found by digest."""

    def __init__(self):
        from flowjax.train.losses import MaximumLikelihoodLoss
        self.log = Log()
        self.inner = MaximumLikelihoodLoss()

    def run(self, *, dist, x, condition, max_epochs, patience, batch, val_prop, return_best, optimizer, seed=0, inner=None):
        from flowjax.train import fit_to_data
        log = self.log
        log.ev.clear()
        log.keyids.clear()
        key = jr.key(seed)
        log.kid(key_bytes(key))
        xs = np.asarray(x)
        row_of = {float(v): i for i, v in enumerate(xs[:, 0])}
        crow_of = None if condition is None else {float(v): i for i, v in enumerate(np.asarray(condition)[:, 0])}
        gradmark = make_gradmark(log)
        inner = inner or self.inner

        def rec(xi, ci, k, *leaves):
            log.ev.append({"k": "loss", "rows": [row_of[float(v)] for v in np.asarray(xi)],
                           "crows": [row_of[float(v)] for v in np.asarray(xi)] if crow_of is None else
                                    [crow_of[float(v)] for v in np.asarray(ci)],
                           "key": log.kid(k), "dig": digest(leaves)})

        def loss_fn(params, static, x, condition=None, key=None):
            leaves = [l for l in jax.tree_util.tree_leaves(params)]
            leaves[0] = gradmark(leaves[0]) if leaves else None
            c0 = condition[:, 0] if condition is not None else x[:, 0]
            jax.debug.callback(rec, x[:, 0], c0, key_bytes(key), *[jax.lax.stop_gradient(l) for l in leaves], ordered=True)
            return inner(params, static, x, condition, key)

        def init(params):
            return optimizer.init(params)

        def update(grads, state, params=None):
            jax.debug.callback(lambda: log.ev.append({"k": "update"}), ordered=True)
            return optimizer.update(grads, state, params)

        params0, _ = eqx.partition(dist, eqx.is_inexact_array)
        out, losses = fit_to_data(key, dist, x, condition=condition, loss_fn=loss_fn, max_epochs=max_epochs,
                                  max_patience=patience, batch_size=batch, val_prop=val_prop,
                                  optimizer=optax.GradientTransformation(init, update), return_best=return_best,
                                  show_progress=False)
        jax.effects_barrier()
        ev = fold(log.ev)
        n = xs.shape[0]
        nval = round(val_prop * n)
        # number of updates before each call; digest -> update count at the validation calls
        upd, at_val = 0, {}
        for e in ev:
            if e["k"] == "loss":
                e["theta"] = upd
                if not e["grad"]:
                    at_val.setdefault(e.pop("dig"), upd)
                else:
                    e.pop("dig")
            else:
                upd += 1
        vals = [float(v) for v in losses["val"]]
        order = sorted(set(vals))
        ranks = [order.index(v) + 1 for v in vals]
        script = [10_000 + i for i in range(upd + 2)]
        upe = (upd // len(vals)) if vals else 0
        for e_i, r in enumerate(ranks, start=1):
            script[e_i * upe] = r
        po, _ = eqx.partition(out, eqx.is_inexact_array)
        dret = digest(jax.tree_util.tree_leaves(po))
        d0 = digest(jax.tree_util.tree_leaves(params0))
        theta_ret = at_val.get(dret, 0 if dret == d0 else -1)
        finite = all(np.isfinite(v) for v in vals)
        return {
            "cfg": {"n": n, "batch": batch, "nval": nval, "maxep": max_epochs, "pat": patience, "rb": bool(return_best),
                    "hascond": condition is not None, "vp": val_prop, "seed": seed, "real": True},
            "script": script, "ev": ev,
            "ret": {"theta": theta_ret, "ntl": len(losses["train"]), "nvl": len(vals), "val": ranks},
        }, finite
