----------------------------- MODULE Constraints -----------------------------
(***************************************************************************)
(* The constraint mechanisms behind property C11, in exact rationals.      *)
(*                                                                         *)
(* Params.tla says WHICH raw values a history can reach; this module says  *)
(* WHAT each mechanism computes from them, and proves (by TLC, over the    *)
(* finite domain below) that the result satisfies the clause of C11 it is  *)
(* there for.  The transcendental functions are abstracted by what the     *)
(* argument needs of them and nothing more:                                *)
(*    softplus(v)            any positive value                            *)
(*    log(1 + softplus(v))   any positive value g                          *)
(*    softmax(raw)           a_i / sum(a), a_i >= 0 not all zero; a_i = 0  *)
(*                           stands for a weight that underflowed          *)
(* One action per mechanism; each sets  c  (the inputs, as the harness     *)
(* will rebuild them on a real object) and  out  (what the mechanism       *)
(* yields).  The harness replays every emitted case into the real code and *)
(* compares the constrained values with  out  recomputed in float64 with   *)
(* the real softplus / softmax in place of the abstract values.            *)
(*                                                                         *)
(*   Planar    u_hat = u + (m - w.u) w / |w|^2,  m = g - 1, and m / slope  *)
(*             when the leaky-relu slope exceeds 1                         *)
(*             (flowjax/bijections/planar.py get_act_scale)                *)
(*   Knots     widths = (p + adj/K) / (1 + adj); widths[0] /= 2;           *)
(*             pos = lo + (hi - lo) cumsum(widths); padded with lo, hi     *)
(*             (rational_quadratic_spline.py _real_to_increasing_on_interval) *)
(*   WNorm     row = s w / |w|      (wrappers.py WeightNormalization)      *)
(*   Floor     softplus(raw) + m    (spline derivatives, min-scale affine) *)
(*   Mixture   log_softmax          (distributions.py _VmapMixture)        *)
(***************************************************************************)
EXTENDS Rat, FiniteSets, TLC, Json
CONSTANTS Ints,      \* components of the integer vectors w, u
          Gs,        \* values of g = log(1 + softplus(w.u)): positive rationals
          Slopes,    \* leaky-relu slopes, <<0, 1>> standing for tanh (no slope)
          Exps,      \* the harness scales w by 10^e (and u by 10 when e < 0): the identities do not depend on it, rounding does
          Adjs,      \* softmax_adjust values
          Softs,     \* softmax numerators a_i
          Intervals, \* <<lo, hi>>
          KnotsK,    \* number of raw knot parameters
          Floors,    \* minimum derivative / minimum scale
          DividePlanarBySlope,   \* TRUE: the code as repaired (5dc218a).  FALSE reproduces the defect: PlanarInvertible fails
          EmitCases
VARIABLES c, out
vars == <<c, out>>

RSum2(a, b) == RAdd(a, b)
Dot2(a, b) == a[1] * b[1] + a[2] * b[2]

(* ---------------------------------------------------------------- planar *)
PlanarOut(w, u, g, slope) ==
    LET wu == R(Dot2(w, u))
        nw == R(Dot2(w, w))
        m0 == RSub(g, ROne)
        m  == IF DividePlanarBySlope /\ RLt(ROne, slope) THEN RDiv(m0, slope) ELSE m0
        k  == RDiv(RSub(m, wu), nw)
        uh == <<RAdd(R(u[1]), RMul(k, R(w[1]))), RAdd(R(u[2]), RMul(k, R(w[2])))>>
        wuh == RAdd(RMul(R(w[1]), uh[1]), RMul(R(w[2]), uh[2]))
    IN [fam |-> "planar", m |-> m, wuh |-> wuh, slope |-> slope]
Planar == \E w1 \in Ints, w2 \in Ints, u1 \in Ints, u2 \in Ints, g \in Gs, s \in Slopes, e \in Exps :
            /\ <<w1, w2>> # <<0, 0>>
            /\ c' = [fam |-> "planar", w |-> <<w1, w2>>, u |-> <<u1, u2>>, slope |-> s, e |-> e]
            /\ out' = PlanarOut(<<w1, w2>>, <<u1, u2>>, g, s)

(* ----------------------------------------------------------------- knots *)
RECURSIVE SumSeq(_)
SumSeq(s) == IF s = <<>> THEN 0 ELSE Head(s) + SumSeq(Tail(s))
RECURSIVE CumSum(_, _)
CumSum(ws, acc) == IF ws = <<>> THEN <<>> ELSE LET a == RAdd(acc, Head(ws)) IN <<a>> \o CumSum(Tail(ws), a)
KnotsOut(a, adj, iv) ==
    LET K == Len(a)
        tot == SumSeq(a)
        p == [i \in 1..K |-> Q(a[i], tot)]
        w0 == [i \in 1..K |-> RDiv(RAdd(p[i], RDiv(adj, R(K))), RAdd(ROne, adj))]
        w == [i \in 1..K |-> IF i = 1 THEN RDiv(w0[1], R(2)) ELSE w0[i]]
        scale == R(iv[2] - iv[1])
        cs == CumSum(w, RZero)
        pos == [i \in 1..K |-> RAdd(R(iv[1]), RMul(scale, cs[i]))]
    IN [fam |-> "knots", pos |-> <<R(iv[1])>> \o pos \o <<R(iv[2])>>, floored |-> RLt(RZero, adj)]
Knots == \E a \in [1..KnotsK -> Softs], adj \in Adjs, iv \in Intervals :
           /\ SumSeq(a) > 0
           /\ c' = [fam |-> "knots", a |-> a, adj |-> adj, iv |-> iv]
           /\ out' = KnotsOut(a, adj, iv)

(* ---------------------------------------------------- weight normalisation *)
\* only the squared norm is rational:  |s w / |w||^2 = s^2 (w.w) / (w.w)
WNorm == \E w1 \in Ints, w2 \in Ints, s \in Gs, e \in Exps :
           /\ <<w1, w2>> # <<0, 0>>
           /\ c' = [fam |-> "wnorm", w |-> <<w1, w2>>, s |-> s, e |-> e]
           /\ out' = [fam |-> "wnorm", sq |-> RMul(RMul(s, s), RDiv(R(Dot2(<<w1, w2>>, <<w1, w2>>)), R(Dot2(<<w1, w2>>, <<w1, w2>>)))), s |-> s]

(* ------------------------------------------------------- softplus + floor *)
Floor == \E sp \in Gs, m \in Floors :
           /\ c' = [fam |-> "floor", m |-> m]
           /\ out' = [fam |-> "floor", v |-> RAdd(sp, m), m |-> m]

(* ---------------------------------------------------------------- mixture *)
Mixture == \E a \in [1..KnotsK -> Softs \ {0}] :
             /\ c' = [fam |-> "mixture", a |-> a]
             /\ out' = [fam |-> "mixture", p |-> [i \in 1..KnotsK |-> Q(a[i], SumSeq(a))]]

Init == c = [fam |-> "none"] /\ out = [fam |-> "none"]
Next == c.fam = "none" /\ (Planar \/ Knots \/ WNorm \/ Floor \/ Mixture)
Spec == Init /\ [][Next]_vars

(* ------------------------------------------------------------ invariants *)
\* 1 + s w.u_hat > 0 for every value s the activation's derivative takes: (0, 1] for tanh, {1, slope} for leaky relu
PlanarInvertible == out.fam = "planar" =>
    /\ RLt(RZero, RAdd(ROne, out.wuh))
    /\ (out.slope # <<0, 1>> => RLt(RZero, RAdd(ROne, RMul(out.slope, out.wuh))))
PlanarProjectsOntoM == out.fam = "planar" => out.wuh = out.m
\* strictly increasing from one end of the interval to the other -- guaranteed by the floor (adj > 0) even where a
\* softmax weight underflows to 0; with softmax_adjust = 0 (a documented opt-out) only while no weight underflows
KnotsIncreasing == out.fam = "knots" =>
    \A i \in 1..(Len(out.pos) - 1) : (out.floored \/ \A j \in DOMAIN c.a : c.a[j] > 0) => RLt(out.pos[i], out.pos[i + 1])
KnotsNeverDecrease == out.fam = "knots" => \A i \in 1..(Len(out.pos) - 1) : RLe(out.pos[i], out.pos[i + 1])
KnotsSpan == out.fam = "knots" => out.pos[1] = R(c.iv[1]) /\ out.pos[Len(out.pos)] = R(c.iv[2])
RowKeepsNorm == out.fam = "wnorm" => out.sq = RMul(out.s, out.s)
AtLeastFloor == out.fam = "floor" => RLt(out.m, out.v) /\ RLt(RZero, out.v)
RECURSIVE RSumSeq(_)
RSumSeq(s) == IF s = <<>> THEN RZero ELSE RAdd(Head(s), RSumSeq(Tail(s)))
MixtureNormalised == out.fam = "mixture" => RSumSeq(out.p) = ROne /\ \A i \in DOMAIN out.p : RLt(RZero, out.p[i])

Emit == (EmitCases /\ c.fam # "none") => PrintT("CASE " \o ToJson(c))
=============================================================================
