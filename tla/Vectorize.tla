------------------------------ MODULE Vectorize ------------------------------
(***************************************************************************)
(* Batching of distribution methods (DESIGN 4.7, property C06).            *)
(*                                                                         *)
(* log_prob(x, condition): x has shape BX ++ E, the condition BC ++ CS;    *)
(*   the result has the NumPy broadcast shape B = Broadcast(BX, BC) and    *)
(*   element o of it is the unbatched log_prob of the x-slice and the      *)
(*   condition-slice obtained by right-aligning o with BX / BC and sending *)
(*   size-1 axes to index 0.                                               *)
(* sample(key, SS, condition): result shape SS ++ BC ++ E; element (s, b)  *)
(*   is drawn with its own key and the condition slice b; the number of    *)
(*   keys is Max(1, prod(SS ++ BC)).                                       *)
(* TLC enumerates the lattice of shapes, checks that the index maps are    *)
(* total, send size-1 axes to 0 and that the key map is injective, and     *)
(* prints one CASE per configuration with the maps written out; the        *)
(* harness replays each on real distributions whose value depends on x and *)
(* on the condition.                                                       *)
(***************************************************************************)
EXTENDS Integers, Sequences, FiniteSets, TLC, Json

CONSTANTS EventShapes, CondShapes, BatchShapes, SampleShapes, EmitCases
VARIABLES cfg
None == <<-1>>

RECURSIVE Prod(_)
Prod(s) == IF s = <<>> THEN 1 ELSE s[1] * Prod(Tail(s))
MaxOf(a, b) == IF a > b THEN a ELSE b
Pad(s, n) == [i \in 1..n |-> IF i <= n - Len(s) THEN 1 ELSE s[i - (n - Len(s))]]     \* right-align with leading 1s
Broadcastable(a, b) == LET n == MaxOf(Len(a), Len(b)) IN
                       \A i \in 1..n : Pad(a, n)[i] = Pad(b, n)[i] \/ Pad(a, n)[i] = 1 \/ Pad(b, n)[i] = 1
Broadcast(a, b) == LET n == MaxOf(Len(a), Len(b)) IN [i \in 1..n |-> IF Pad(a, n)[i] = 1 THEN Pad(b, n)[i] ELSE Pad(a, n)[i]]
\* C-order unravel / ravel (0-based)
Stride(s, a) == Prod(SubSeq(s, a + 1, Len(s)))
Unravel(k, s) == [a \in 1..Len(s) |-> (k \div Stride(s, a)) % s[a]]
RECURSIVE RavelFrom(_, _, _)
RavelFrom(idx, s, a) == IF a > Len(s) THEN 0 ELSE idx[a] * Stride(s, a) + RavelFrom(idx, s, a + 1)
Ravel(idx, s) == RavelFrom(idx, s, 1)
\* project an index of the broadcast shape B onto an operand of batch shape bs
Project(o, B, bs) == LET off == Len(B) - Len(bs) IN [i \in 1..Len(bs) |-> IF bs[i] = 1 THEN 0 ELSE o[i + off]]

HasCond == cfg.cs # None
BC == IF HasCond THEN cfg.bc ELSE <<>>
LpOk == Broadcastable(cfg.bx, BC)
LpShape == Broadcast(cfg.bx, BC)
\* for every output element of log_prob: <<flat index of the x slice, flat index of the condition slice>>
LpMap == [k \in 1..Prod(LpShape) |->
            LET o == Unravel(k - 1, LpShape) IN
            <<Ravel(Project(o, LpShape, cfg.bx), cfg.bx), IF HasCond THEN Ravel(Project(o, LpShape, BC), BC) ELSE 0>>]
KeyShape == cfg.ss \o BC
NKeys == MaxOf(1, Prod(KeyShape))
SampleShape == KeyShape \o cfg.e
\* for every drawn element: <<key index, flat index of the condition slice>>
SampleMap == [k \in 1..Prod(KeyShape) |->
                LET o == Unravel(k - 1, KeyShape) IN
                <<k - 1, IF HasCond THEN Ravel(SubSeq(o, Len(cfg.ss) + 1, Len(o)), BC) ELSE 0>>]

Init == cfg \in [e : EventShapes, cs : CondShapes, bx : BatchShapes, bc : BatchShapes, ss : SampleShapes]
Next == UNCHANGED cfg
Spec == Init /\ [][Next]_cfg

\* ---- design theorems -------------------------------------------------------------------------------------------
MapsTotal == LpOk => \A k \in DOMAIN LpMap : /\ LpMap[k][1] \in 0..(Prod(cfg.bx) - 1)
                                            /\ LpMap[k][2] \in 0..(Prod(BC) - 1)
\* every slice of x and of the condition is used (nothing is dropped by broadcasting)
MapsOnto == LpOk /\ Prod(LpShape) > 0 => /\ {LpMap[k][1] : k \in DOMAIN LpMap} = 0..(Prod(cfg.bx) - 1)
                                         /\ {LpMap[k][2] : k \in DOMAIN LpMap} = 0..(Prod(BC) - 1)
\* without broadcasting (equal batch shapes) element k pairs slice k with slice k
AlignedWhenEqual == LpOk /\ HasCond /\ cfg.bx = BC => \A k \in DOMAIN LpMap : LpMap[k][1] = k - 1 /\ LpMap[k][2] = k - 1
KeysInjective == \A i, j \in DOMAIN SampleMap : SampleMap[i][1] = SampleMap[j][1] => i = j
KeysEnough == Prod(KeyShape) <= NKeys
SampleCondTotal == \A k \in DOMAIN SampleMap : SampleMap[k][2] \in 0..(MaxOf(Prod(BC), 1) - 1)

Case == [cfg |-> cfg, lp_ok |-> LpOk, lp_shape |-> IF LpOk THEN LpShape ELSE <<>>, lp_map |-> IF LpOk THEN LpMap ELSE <<>>,
         sample_shape |-> SampleShape, nkeys |-> NKeys, sample_map |-> SampleMap]
Emit == EmitCases => PrintT("CASE " \o ToJson(Case))
=============================================================================
