------------------------------ MODULE BlockMasks ------------------------------
(***************************************************************************)
(* flowjax.masks.block_diag_mask / block_tril_mask and the sign structure  *)
(* of the block autoregressive network (C09): every layer weight is zero   *)
(* above the block diagonal, strictly positive on it (softplus + weight    *)
(* normalisation with a positive scale) and free below; the activation is  *)
(* monotone.  TLC multiplies the sign patterns of all layers for every     *)
(* (dim, depth, block_dim) of the grid and checks the end-to-end Jacobian  *)
(* is lower triangular with a strictly positive diagonal; it also prints   *)
(* the two mask helpers for every block shape, replayed against the code.  *)
(***************************************************************************)
EXTENDS Integers, Sequences, FiniteSets, TLC, Json
CONSTANTS MaxBlock, MaxN, Offsets, MaxDepth, EmitCases
VARIABLES bc
\* ---- block masks (flowjax.masks) -------------------------------------------------------------------------------
\* entries (row, col), 1-based, of an (rb*n) x (cb*n) matrix
BlockOf(i, b) == (i - 1) \div b          \* 0-based block index
BlockDiag(rb, cb, n) == {<<r, c>> \in (1..(rb * n)) \X (1..(cb * n)) : BlockOf(r, rb) = BlockOf(c, cb)}
\* block_tril_mask(block_shape, n, k): column block i is set from row block max(0, i - k) downwards
BlockTril(rb, cb, n, k) == {<<r, c>> \in (1..(rb * n)) \X (1..(cb * n)) :
                               BlockOf(r, rb) >= (IF BlockOf(c, cb) - k < 0 THEN 0 ELSE BlockOf(c, cb) - k)}

\* sign domain for the block network: "Z" zero, "P" strictly positive, "U" unknown sign
SMul(a, b) == IF a = "Z" \/ b = "Z" THEN "Z" ELSE IF a = "P" /\ b = "P" THEN "P" ELSE "U"
SAdd(a, b) == IF a = "Z" THEN b ELSE IF b = "Z" THEN a ELSE IF a = "P" /\ b = "P" THEN "P" ELSE "U"
RECURSIVE SSum(_, _, _)
SSum(f, lo_, hi_) == IF lo_ > hi_ THEN "Z" ELSE SAdd(f[lo_], SSum(f, lo_ + 1, hi_))
\* weight sign pattern of block_autoregressive_linear: diagonal blocks softplus-positive, lower blocks free, upper zero
WSign(rb, cb, n) == [r \in 1..(rb * n) |-> [c \in 1..(cb * n) |->
                       IF BlockOf(r, rb) = BlockOf(c, cb) THEN "P" ELSE IF BlockOf(r, rb) > BlockOf(c, cb) THEN "U" ELSE "Z"]]
SMatMul(A, B, rows, inner, cols) ==
   [r \in 1..rows |-> [c \in 1..cols |-> SSum([m \in 1..inner |-> SMul(A[r][m], B[m][c])], 1, inner)]]
\* block shapes of the layers of BlockAutoregressiveNetwork(dim = n, depth, block_dim = b)
BlockShapes(depth, b) == IF depth = 0 THEN << <<1, 1>> >>
                         ELSE << <<b, 1>> >> \o [i \in 1..(depth - 1) |-> <<b, b>>] \o << <<1, b>> >>
\* end-to-end Jacobian sign pattern: product of the layer patterns (the activation is monotone: a positive diagonal)
RECURSIVE JacSign(_, _, _, _)
JacSign(shapes, n, upto, acc) ==
   IF upto > Len(shapes) THEN acc
   ELSE LET s == shapes[upto]
            W == WSign(s[1], s[2], n)
        IN JacSign(shapes, n, upto + 1, SMatMul(W, acc, s[1] * n, s[2] * n, n))
IdSign(n) == [r \in 1..n |-> [c \in 1..n |-> IF r = c THEN "P" ELSE "Z"]]
BlockJac(n, depth, b) == JacSign(BlockShapes(depth, b), n, 1, IdSign(n))
\* C09 "a block autoregressive network has a lower-triangular Jacobian with strictly positive diagonal"
BlockTriangularPositive(n, depth, b) ==
   LET J == BlockJac(n, depth, b) IN
   \A r, c \in 1..n : (r < c => J[r][c] = "Z") /\ (r = c => J[r][c] = "P")


Init == bc \in [rb : 1..MaxBlock, cb : 1..MaxBlock, n : 1..MaxN, k : Offsets, depth : 0..MaxDepth]
Next == UNCHANGED bc
Spec == Init /\ [][Next]_bc

\* design theorems
DiagInsideTril == BlockDiag(bc.rb, bc.cb, bc.n) \subseteq BlockTril(bc.rb, bc.cb, bc.n, 0)
TrilIsLowerBlocks == BlockTril(bc.rb, bc.cb, bc.n, 0) =
                       {<<r, c>> \in (1..(bc.rb * bc.n)) \X (1..(bc.cb * bc.n)) : BlockOf(r, bc.rb) >= BlockOf(c, bc.cb)}
NetworkTriangularPositive == bc.rb = bc.cb /\ bc.k = 0 => BlockTriangularPositive(bc.n, bc.depth, bc.rb)

Pairs(S) == [i \in 1..Cardinality(S) |-> 0]
ToMatrix(S, rows, cols) == [r \in 1..rows |-> [c \in 1..cols |-> IF <<r, c>> \in S THEN 1 ELSE 0]]
Case == [rb |-> bc.rb, cb |-> bc.cb, n |-> bc.n, k |-> bc.k,
         diag |-> ToMatrix(BlockDiag(bc.rb, bc.cb, bc.n), bc.rb * bc.n, bc.cb * bc.n),
         tril |-> ToMatrix(BlockTril(bc.rb, bc.cb, bc.n, bc.k), bc.rb * bc.n, bc.cb * bc.n)]
Emit == (EmitCases /\ bc.depth = 0) => PrintT("CASE " \o ToJson(Case))
=============================================================================
