SPECIFICATION Spec
CONSTANTS
  Layer = "P"
  Skip = {}
CONSTRAINT Reg
INVARIANT NeverMovesFrozen
POSTCONDITION Post
CHECK_DEADLOCK FALSE
