SPECIFICATION Spec
CONSTANTS
  K = 4
  Grid <- GridDef
  MaxLen = 5
  EmitCases = TRUE
INVARIANT ConstrainedPositive
INVARIANT Bounded
CONSTRAINT Emit
CHECK_DEADLOCK FALSE
