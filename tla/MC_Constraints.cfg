\* exhaustive: every case of every mechanism over the finite domain, emitted for replay
SPECIFICATION Spec
CONSTANTS
  Ints <- IntsDef
  Gs <- GsDef
  Slopes <- SlopesDef
  Exps <- ExpsDef
  Adjs <- AdjsDef
  Softs <- SoftsDef
  Intervals <- IntervalsDef
  Floors <- FloorsDef
  KnotsK = 3
  DividePlanarBySlope = TRUE
  EmitCases = TRUE
INVARIANT PlanarInvertible
INVARIANT PlanarProjectsOntoM
INVARIANT KnotsIncreasing
INVARIANT KnotsNeverDecrease
INVARIANT KnotsSpan
INVARIANT RowKeepsNorm
INVARIANT AtLeastFloor
INVARIANT MixtureNormalised
CONSTRAINT Emit
CHECK_DEADLOCK FALSE
