SPECIFICATION Spec
CONSTANTS
  Layer = "P"
  Skip = {}
CONSTRAINT Reg
INVARIANT StepBound
POSTCONDITION Post
CHECK_DEADLOCK FALSE
