------------------------------ MODULE Bisection ------------------------------
(***************************************************************************)
(* flowjax/bisection_search.py as a state machine (DESIGN 4.3).            *)
(*                                                                         *)
(* The algorithm looks at the function only through sign f(p).  For a      *)
(* continuous strictly increasing f with root r, sign f(p) = sign(p - r),  *)
(* so the model needs no function: THE ROOT IS AN ADVERSARY revealed one   *)
(* comparison at a time.  Knowledge is the open interval (ka, kb) of still *)
(* possible roots, or a point `hit` after an exact hit.  The answer        *)
(* sequences so generated are exactly those realisable by some real root,  *)
(* so the bounded run is a statement about ALL roots up to a magnitude.    *)
(*                                                                         *)
(* Positions are integers scaled by S = 2^KMax in units of the initial     *)
(* width, origin = the initial lower end (the search is equivariant under  *)
(* x -> a x + b, a > 0, in exact arithmetic).  tolW = 2*tol in those units. *)
(*                                                                         *)
(* I layer: EvalLo, EvalHi, AdaptMove, AdaptExit, BisectStep, Finish,      *)
(*          NextCoordinate -- one per critical step of _adapt_interval_to_ *)
(*          include_root, _bisection_search, _autoregressive_bisection_    *)
(*          search.                                                        *)
(* P layer: Bracket, Accurate, ExactHit, EndsIncluded, bounds on the       *)
(*          iteration counts, Terminates, PrefixFinal.                     *)
(***************************************************************************)
EXTENDS Integers, Sequences, FiniteSets, TLC, Json

CONSTANTS
  AMax,       \* adaptation steps explored (roots up to 2^AMax widths away)
  KMax,       \* halvings explored
  MaxIters,   \* set of max_iter values
  TolWs,      \* set of 2*tol values, in scaled units
  Dim,        \* number of coordinates solved in sequence by the driver
  EmitCases

S == 2^KMax
NoHit == -999999999
\* the adversary's root lies strictly inside the range the adaptation can cover in AMax doublings
RootLo == -(2^AMax - 1) * S
RootHi == (2^AMax) * S

VARIABLES
  cfg,                \* [maxIter, tolW]
  phase,              \* "evalLo" | "evalHi" | "adapt" | "bisect" | "done" | "alldone"
  lo, hi, ex,         \* current interval and the next expansion
  slo, shi,           \* signs at the ends (9 = not evaluated yet)
  it, k,              \* adaptation iterations, halvings
  res,                \* result of the current coordinate
  ka, kb, hit,        \* adversary knowledge about the root of the current coordinate
  evals,              \* history: sequence of <<coordinate, point, sign>> evaluated (observable through the function)
  coord, found        \* driver: coordinate being solved (1-based), roots already written into the vector

vars == <<cfg, phase, lo, hi, ex, slo, shi, it, k, res, ka, kb, hit, evals, coord, found>>

\* ---- the adversary ------------------------------------------------------
Ans(p) == IF hit # NoHit THEN {IF p < hit THEN -1 ELSE IF p > hit THEN 1 ELSE 0}
          ELSE IF p <= ka THEN {-1} ELSE IF p >= kb THEN {1} ELSE {-1, 0, 1}
Learn(p, s) == /\ hit' = (IF s = 0 THEN p ELSE hit)
               /\ ka' = (IF s = -1 /\ p > ka THEN p ELSE ka)
               /\ kb' = (IF s = 1 /\ p < kb THEN p ELSE kb)
Log(p, s) == evals' = Append(evals, <<coord, p, s>>)

Fresh == /\ lo = 0 /\ hi = S /\ ex = S /\ slo = 9 /\ shi = 9 /\ it = 0 /\ k = 0 /\ res = NoHit
         /\ ka = RootLo /\ kb = RootHi /\ hit = NoHit

Init == /\ cfg \in [maxIter : MaxIters, tolW : TolWs]
        /\ phase = "evalLo" /\ Fresh /\ evals = <<>> /\ coord = 1 /\ found = <<>>

\* ---- _adapt_interval_to_include_root ------------------------------------
EvalLo == /\ phase = "evalLo"
          /\ \E s \in Ans(lo) : slo' = s /\ Learn(lo, s) /\ Log(lo, s)
          /\ phase' = "evalHi" /\ UNCHANGED <<cfg, lo, hi, ex, shi, it, k, res, coord, found>>
EvalHi == /\ phase = "evalHi"
          /\ \E s \in Ans(hi) : shi' = s /\ Learn(hi, s) /\ Log(hi, s)
          /\ phase' = "adapt" /\ UNCHANGED <<cfg, lo, hi, ex, slo, it, k, res, coord, found>>
\* one iteration of the while loop: both signs agree; move away from the side whose sign is wrong, double the step
AdaptMove == /\ phase = "adapt" /\ slo = shi /\ it < AMax
             /\ lo' = (IF slo = 1 THEN lo - ex ELSE hi)
             /\ hi' = (IF slo = 1 THEN lo ELSE hi + ex)
             /\ ex' = 2 * ex /\ it' = it + 1 /\ phase' = "evalLo"
             /\ UNCHANGED <<cfg, slo, shi, k, res, ka, kb, hit, evals, coord, found>>
\* loop exit: the signs differ; an exact hit on an end collapses the interval onto it (two jnp.where, in this order)
AdaptExit == /\ phase = "adapt" /\ slo # shi
             /\ LET l1 == IF shi = 0 THEN hi ELSE lo
                    h1 == IF slo = 0 THEN l1 ELSE hi
                IN lo' = l1 /\ hi' = h1
             /\ phase' = "bisect"
             /\ UNCHANGED <<cfg, ex, slo, shi, it, k, res, ka, kb, hit, evals, coord, found>>

\* ---- _bisection_search ---------------------------------------------------
Continue == (hi - lo) > cfg.tolW /\ k < cfg.maxIter
BisectStep == /\ phase = "bisect" /\ Continue
              /\ (lo + hi) % 2 = 0                    \* resolution of the model (see StillExact)
              /\ LET m == (lo + hi) \div 2 IN
                 \E s \in Ans(m) :
                    /\ Learn(m, s) /\ Log(m, s)
                    /\ lo' = (IF s = 1 THEN lo ELSE m)
                    /\ hi' = (IF s = -1 THEN hi ELSE m)
              /\ k' = k + 1
              /\ UNCHANGED <<cfg, phase, ex, slo, shi, it, res, coord, found>>
Finish == /\ phase = "bisect" /\ ~Continue
          /\ (lo + hi) % 2 = 0
          /\ res' = (lo + hi) \div 2 /\ phase' = "done"
          /\ UNCHANGED <<cfg, lo, hi, ex, slo, shi, it, k, ka, kb, hit, evals, coord, found>>

\* ---- _autoregressive_bisection_search: write the root into the vector, solve the next coordinate ---------------
NextCoordinate ==
  /\ phase = "done"
  /\ found' = Append(found, res)
  /\ IF coord < Dim
       THEN /\ coord' = coord + 1 /\ phase' = "evalLo"
            /\ lo' = 0 /\ hi' = S /\ ex' = S /\ slo' = 9 /\ shi' = 9 /\ it' = 0 /\ k' = 0 /\ res' = NoHit
            /\ ka' = RootLo /\ kb' = RootHi /\ hit' = NoHit
       ELSE /\ phase' = "alldone"
            /\ UNCHANGED <<coord, lo, hi, ex, slo, shi, it, k, res, ka, kb, hit>>
  /\ UNCHANGED <<cfg, evals>>

Next == EvalLo \/ EvalHi \/ AdaptMove \/ AdaptExit \/ BisectStep \/ Finish \/ NextCoordinate
Spec == Init /\ [][Next]_vars
FairSpec == Spec /\ WF_vars(Next)

---------------------------------------------------------------------------
\* P layer

\* every root still possible lies in the bracket once the adaptation is over
Bracket == phase \in {"bisect", "done"} =>
              /\ (hit # NoHit => lo <= hit /\ hit <= hi)
              /\ (hit = NoHit => lo <= ka /\ kb <= hi)

\* "returns a point within the requested tolerance of the root": exit by tolerance => every still-possible root is
\* within tol (2*|res - r| <= tolW); exit by max_iter => within half the remaining bracket
ByTol == phase = "done" /\ (hi - lo) <= cfg.tolW
Accurate == ByTol => /\ (hit # NoHit => 2 * (res - hit) <= cfg.tolW /\ 2 * (hit - res) <= cfg.tolW)
                     /\ (hit = NoHit => 2 * (kb - res) <= cfg.tolW /\ 2 * (res - ka) <= cfg.tolW)
AccurateByIter == phase = "done" /\ ~ByTol =>
                     /\ k = cfg.maxIter
                     /\ (hit = NoHit => 2 * (kb - res) <= (hi - lo) /\ 2 * (res - ka) <= (hi - lo))
\* an exact hit is returned exactly
ExactHit == phase = "done" /\ hit # NoHit /\ lo = hi => res = hit
HitCollapses == phase \in {"bisect", "done"} /\ hit # NoHit => lo = hit /\ hi = hit
\* "whether or not it contains the root": a root on an initial end needs no adaptation
EndsIncluded == phase = "bisect" /\ it = 0 /\ hit # NoHit /\ hit \in {0, S} => lo = hit /\ hi = hit
\* the bracket halves at every step: width * 2^k = width after adaptation
WidthHalves == phase = "bisect" /\ hit = NoHit => (hi - lo) * 2^k = (IF it = 0 THEN S ELSE ex \div 2)
\* adaptation reaches a root d widths away in about log2(d) doublings: after `it` moves the bracket covers
\* [-(2^it - 1), 2^it] widths, so the loop exits as soon as the root is inside that
AdaptCovers == phase \in {"evalLo", "evalHi", "adapt"} => lo >= -(2^it - 1) * S /\ hi <= (2^it) * S
AdaptBound == phase \in {"bisect", "done"} /\ it > 0 =>
                 \* the root was not inside the coverage of the previous iteration
                 \/ (hit # NoHit /\ (hit <= -(2^(it - 1) - 1) * S \/ hit >= (2^(it - 1)) * S))
                 \/ (hit = NoHit /\ (kb <= -(2^(it - 1) - 1) * S \/ ka >= (2^(it - 1)) * S))
IterBound == k <= cfg.maxIter /\ k <= KMax + AMax + 1
StillExact == phase = "bisect" /\ Continue /\ k < KMax => (lo + hi) % 2 = 0

\* driver: when coordinate i is being solved the vector carries the roots found at < i (history: evals records the
\* coordinate; conformance compares the whole evaluated vectors)
PrefixFinal == Len(found) = (IF phase = "alldone" THEN Dim ELSE coord - 1)

Terminates == <>(phase = "alldone")
LevelBound == TLCGet("level") <= Dim * (2 * (AMax + 1) + AMax + 2 + KMax + AMax + 4) + 2

---------------------------------------------------------------------------
\* spec -> code: one CASE per maximal behaviour
Know == [hit |-> hit, ka |-> ka, kb |-> kb]
Case == [cfg |-> cfg, evals |-> evals, found |-> found, S |-> S]
Emit == (EmitCases /\ phase = "alldone") => PrintT("CASE " \o ToJson(Case))
=============================================================================
