---- MODULE MC_BlockMasks ----
EXTENDS BlockMasks
OffsetsDef == {-2, -1, 0, 1, 2}
====
