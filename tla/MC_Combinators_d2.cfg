SPECIFICATION Spec
CONSTANTS
  Shapes <- ShapesQuick
  MaxDepth = 2
  Focus = "all"
  MaxSize = 12
  AsFound = FALSE
  EmitCases = TRUE
INVARIANT DeclaredShapeIsSemantic
INVARIANT Exact
INVARIANT RoundTrip
INVARIANT LogDetsOpposite
INVARIANT MergeChainsSame
INVARIANT InvertSwaps
CONSTRAINT Emit
VIEW View
CHECK_DEADLOCK FALSE
