SPECIFICATION FairSpec
CONSTANTS
  AMax = 3
  KMax = 4
  MaxIters = {0, 3}
  TolWs = {2, 16}
  Dim = 2
  EmitCases = FALSE
PROPERTY Terminates
CHECK_DEADLOCK FALSE
