SPECIFICATION Spec
CONSTANTS
  MaxB = 5
INVARIANT NeverItself
INVARIANT ExactlyN
INVARIANT OthersOfTheBatch
INVARIANT SameSamples
CHECK_DEADLOCK FALSE
