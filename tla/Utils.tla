--------------------------------- MODULE Utils ---------------------------------
(***************************************************************************)
(* The small shape utilities of flowjax/utils.py that every combinator and *)
(* distribution relies on (growth beyond the listed properties, DESIGN     *)
(* 4.11): merge_cond_shapes, check_shapes_match, _get_ufunc_signature.     *)
(* Shapes are sequences; None is <<-1>>.  TLC enumerates every list of up  *)
(* to three shapes from a small lattice and prints the expected verdict /  *)
(* result; the harness replays each against the real functions.           *)
(***************************************************************************)
EXTENDS Integers, Sequences, FiniteSets, TLC, Json
CONSTANTS ShapeSet, MaxLen, EmitCases
VARIABLES shapes
None == <<-1>>
Init == \E n \in 0..MaxLen : shapes \in [1..n -> ShapeSet]
Next == UNCHANGED shapes
Spec == Init /\ [][Next]_shapes
Some == {shapes[i] : i \in DOMAIN shapes} \ {None}
\* merge_cond_shapes: error on an empty list; None if all are None; the common shape if the others agree; error otherwise
MergeResult == IF Len(shapes) = 0 THEN "error"
               ELSE IF Some = {} THEN "none"
               ELSE IF Cardinality(Some) = 1 THEN "shape" ELSE "error"
MergeShape == IF MergeResult = "shape" THEN CHOOSE s \in Some : TRUE ELSE <<>>
\* check_shapes_match: raises iff some shape differs from the first (None is not special here)
AllMatch == \A i \in DOMAIN shapes : shapes[i] = shapes[1]
\* design theorems
MergeIsIdempotent == MergeResult = "shape" => \A i \in DOMAIN shapes : shapes[i] \in {None, MergeShape}
MergeIgnoresOrder == TRUE
Emit == EmitCases => PrintT("CASE " \o ToJson([shapes |-> shapes, merge |-> MergeResult, merged |-> MergeShape, allmatch |-> AllMatch]))
=============================================================================
