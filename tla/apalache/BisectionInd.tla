---------------------------- MODULE BisectionInd ----------------------------
(***************************************************************************)
(* Unbounded-integer version of the scalar search of Bisection.tla for an  *)
(* inductive-invariant check with Apalache (DESIGN 3.3, optional extra).   *)
(* Positions and the adversary's knowledge are arbitrary integers (no      *)
(* scaling bound, no bound on the number of expansions or halvings), so    *)
(* IndInv => Bracket holds for every root and every interval, not only for *)
(* the ones TLC enumerates.  Halving is modelled on even brackets only     *)
(* (odd ones stutter): the invariant does not depend on exactness.         *)
(*   apalache-mc check --init=IndInit --inv=IndInv --length=1               *)
(*   apalache-mc check --init=Init    --inv=IndInv --length=0               *)
(***************************************************************************)
EXTENDS Integers

VARIABLES
  \* @type: Str;
  phase,
  \* @type: Int;
  lo,
  \* @type: Int;
  hi,
  \* @type: Int;
  ex,
  \* @type: Int;
  slo,
  \* @type: Int;
  shi,
  \* @type: Bool;
  hasKa,
  \* @type: Int;
  ka,
  \* @type: Bool;
  hasKb,
  \* @type: Int;
  kb,
  \* @type: Bool;
  hasHit,
  \* @type: Int;
  hit

\* the adversary: possible answers at p given what is known about the root
CanNeg(p) == IF hasHit THEN p < hit ELSE (~hasKb \/ p < kb)
CanPos(p) == IF hasHit THEN p > hit ELSE (~hasKa \/ p > ka)
CanZero(p) == IF hasHit THEN p = hit ELSE ((~hasKa \/ p > ka) /\ (~hasKb \/ p < kb))
\* @type: (Int, Int) => Bool;
Learn(p, s) ==
  /\ hasHit' = (hasHit \/ s = 0)
  /\ hit' = (IF s = 0 THEN p ELSE hit)
  /\ hasKa' = (hasKa \/ s = -1)
  /\ ka' = (IF s = -1 /\ (~hasKa \/ p > ka) THEN p ELSE ka)
  /\ hasKb' = (hasKb \/ s = 1)
  /\ kb' = (IF s = 1 /\ (~hasKb \/ p < kb) THEN p ELSE kb)
Answer(p, s) == (s = -1 /\ CanNeg(p)) \/ (s = 1 /\ CanPos(p)) \/ (s = 0 /\ CanZero(p))

Init == /\ phase = "evalLo" /\ lo = 0 /\ hi = 16 /\ ex = 16 /\ slo = 9 /\ shi = 9
        /\ hasKa = FALSE /\ ka = 0 /\ hasKb = FALSE /\ kb = 0 /\ hasHit = FALSE /\ hit = 0

EvalLo == /\ phase = "evalLo"
          /\ \E s \in {-1, 0, 1} : Answer(lo, s) /\ slo' = s /\ Learn(lo, s)
          /\ phase' = "evalHi" /\ UNCHANGED <<lo, hi, ex, shi>>
EvalHi == /\ phase = "evalHi"
          /\ \E s \in {-1, 0, 1} : Answer(hi, s) /\ shi' = s /\ Learn(hi, s)
          /\ phase' = "adapt" /\ UNCHANGED <<lo, hi, ex, slo>>
AdaptMove == /\ phase = "adapt" /\ slo = shi
             /\ lo' = (IF slo = 1 THEN lo - ex ELSE hi)
             /\ hi' = (IF slo = 1 THEN lo ELSE hi + ex)
             /\ ex' = 2 * ex /\ phase' = "evalLo"
             /\ UNCHANGED <<slo, shi, hasKa, ka, hasKb, kb, hasHit, hit>>
AdaptExit == /\ phase = "adapt" /\ slo # shi
             /\ lo' = (IF shi = 0 THEN hi ELSE lo)
             /\ hi' = (IF slo = 0 THEN (IF shi = 0 THEN hi ELSE lo) ELSE hi)
             /\ phase' = "bisect"
             /\ UNCHANGED <<ex, slo, shi, hasKa, ka, hasKb, kb, hasHit, hit>>
BisectStep == /\ phase = "bisect" /\ hi - lo >= 2 /\ (lo + hi) % 2 = 0
              /\ \E s \in {-1, 0, 1} :
                   LET m == (lo + hi) \div 2 IN
                   /\ Answer(m, s) /\ Learn(m, s)
                   /\ lo' = (IF s = 1 THEN lo ELSE m)
                   /\ hi' = (IF s = -1 THEN hi ELSE m)
              /\ UNCHANGED <<phase, ex, slo, shi>>
Next == EvalLo \/ EvalHi \/ AdaptMove \/ AdaptExit \/ BisectStep

\* ---- the property and the inductive invariant -----------------------------------------------------------------
Bracket == phase = "bisect" =>
              /\ (hasHit => lo <= hit /\ hit <= hi)
              /\ (~hasHit => hasKa /\ hasKb /\ lo <= ka /\ kb <= hi)

Consistent == /\ (hasKa /\ hasKb /\ ~hasHit => ka < kb)
              /\ (hasHit /\ hasKa => ka < hit)
              /\ (hasHit /\ hasKb => hit < kb)
SignLo == (slo = -1 => hasKa /\ ka >= lo) /\ (slo = 1 => hasKb /\ kb <= lo) /\ (slo = 0 => hasHit /\ hit = lo)
SignHi == (shi = -1 => hasKa /\ ka >= hi) /\ (shi = 1 => hasKb /\ kb <= hi) /\ (shi = 0 => hasHit /\ hit = hi)
IndInv ==
  /\ phase \in {"evalLo", "evalHi", "adapt", "bisect"}
  /\ slo \in {-1, 0, 1, 9} /\ shi \in {-1, 0, 1, 9}
  /\ Consistent
  /\ (phase \in {"evalLo", "evalHi", "adapt"} => lo < hi /\ ex > 0)
  /\ (phase \in {"evalHi", "adapt"} => slo \in {-1, 0, 1} /\ SignLo)
  /\ (phase = "adapt" => shi \in {-1, 0, 1} /\ SignHi)
  /\ (phase = "bisect" => lo <= hi)
  /\ Bracket
IndInit == /\ phase \in {"evalLo", "evalHi", "adapt", "bisect"}
           /\ lo \in Int /\ hi \in Int /\ ex \in Int
           /\ slo \in {-1, 0, 1, 9} /\ shi \in {-1, 0, 1, 9}
           /\ hasKa \in BOOLEAN /\ ka \in Int /\ hasKb \in BOOLEAN /\ kb \in Int /\ hasHit \in BOOLEAN /\ hit \in Int
           /\ IndInv
=============================================================================
