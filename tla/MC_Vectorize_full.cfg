SPECIFICATION Spec
CONSTANTS
  EventShapes <- EvFull
  CondShapes <- CsFull
  BatchShapes <- BsFull
  SampleShapes <- SsFull
  EmitCases = TRUE
INVARIANT MapsTotal
INVARIANT MapsOnto
INVARIANT AlignedWhenEqual
INVARIANT KeysInjective
INVARIANT KeysEnough
INVARIANT SampleCondTotal
CONSTRAINT Emit
CHECK_DEADLOCK FALSE
