\* Data flow, exhaustive: 5 rows, every batch size 1..7, every validation size 1..4, up to 2 epochs, both loss orders.
SPECIFICATION Spec
CONSTANTS
  Rows = {r1, r2, r3, r4}
  L = 2
  Batches = {1, 2, 3, 5}
  NVals = {1, 2, 3}
  MaxEp = 2
  MaxPat = 1
  Ties = FALSE
  EmitCases = FALSE
SYMMETRY RowSym
VIEW View
INVARIANT TypeOK
INVARIANT Partition
INVARIANT AtMostOncePerEpoch
INVARIANT OnlyRemainderSkipped
INVARIANT NoValidationGradient
INVARIANT FreshKeys
INVARIANT OneLossPerEpoch
INVARIANT StopsAtFirst
INVARIANT NeverEarly
INVARIANT ReturnsArgmin
INVARIANT ReturnsLast
INVARIANT ReturnsInitialIfNoEpoch
INVARIANT StepBound
CHECK_DEADLOCK FALSE
