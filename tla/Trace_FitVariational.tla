------------------------- MODULE Trace_FitVariational -------------------------
(* code -> spec for fit_to_variational_target.  One ndjson line per execution:              *)
(*   cfg {steps, rb}   script (loss as a function of the update count, index theta+1)       *)
(*   ev  [{k:"loss", key, theta, grad} | {k:"update"}]    ret {theta, nl, losses}           *)
(*   a script value 0 stands for a NaN loss                                                 *)
EXTENDS Integers, Sequences, FiniteSets, TLC, Json, IOUtils, FitCommon
CONSTANTS Layer, Skip
Traces == ndJsonDeserialize(IOEnv.TRACE_FILE)
VARIABLES tid, l, step, params, losses, evalAt, best, keys, pass
vars == <<tid, l, step, params, losses, evalAt, best, keys, pass>>
G(name, p) == name \in Skip \/ p
GI(name, p) == Layer = "P" \/ name \in Skip \/ p
T == Traces[tid]
Ev == T.ev

Init == /\ tid \in 1..Len(Traces) /\ l = 1 /\ step = 0 /\ params = 0 /\ losses = <<>> /\ evalAt = <<>> /\ best = 0
        /\ keys = {0} /\ pass = "loop"

Step ==
  /\ pass = "loop" /\ l + 1 <= Len(Ev) /\ Ev[l].k = "loss" /\ Ev[l + 1].k = "update"
  /\ LET e == Ev[l]
         v == T.script[e.theta + 1]           \* the loss this call returned
     IN
     /\ G("ExactlySteps", step < T.cfg.steps)
     /\ G("FreshKey", e.key \notin keys)
     /\ GI("LossSeesCurrentParams", e.theta = params)
     /\ losses' = Append(losses, v)
     /\ evalAt' = Append(evalAt, e.theta)
     /\ best' = IF v # 0 /\ v = MinOfSet((SeqRange(losses) \ {0}) \cup {v}) THEN e.theta ELSE best
     /\ keys' = keys \cup {e.key}
  /\ params' = params + 1 /\ step' = step + 1 /\ l' = l + 2
  /\ UNCHANGED <<tid, pass>>

Return ==
  /\ pass = "loop" /\ l = Len(Ev) + 1
  /\ G("ExactlySteps", step = T.cfg.steps)
  /\ G("OneLossPerStep", T.ret.nl = T.cfg.steps /\ T.ret.losses = losses)
  \* a script value 0 stands for a NaN loss (only after the first step): the minimum is over the losses that are numbers
  /\ (T.cfg.rb /\ SeqRange(losses) \ {0} # {} =>
        G("ReturnsArgmin", \E k \in DOMAIN losses : losses[k] = MinOfSet(SeqRange(losses) \ {0}) /\ T.ret.theta = evalAt[k]))
  /\ (T.cfg.rb => GI("ReturnsLatestArgmin", T.ret.theta = best))
  /\ (~T.cfg.rb \/ losses = <<>> => G("ReturnsLast", T.ret.theta = params))
  /\ pass' = "done" /\ l' = l + 1
  /\ UNCHANGED <<tid, step, params, losses, evalAt, best, keys>>

Next == Step \/ Return
Spec == Init /\ [][Next]_vars
StepBound == "ExactlySteps" \in Skip \/ step <= T.cfg.steps
Reg == TLCSet(tid, IF TLCGet(tid) < l THEN l ELSE TLCGet(tid))
Post == \A t \in 1..Len(Traces) : PrintT(<<"TRACE", t, TLCGet(t), Len(Traces[t].ev) + 2>>)
ASSUME \A t \in 1..Len(Traces) : TLCSet(t, 0)
=============================================================================
