SPECIFICATION Spec
CONSTANTS
  Shapes <- ShapesQuick
  MaxDepth = 1
  MaxSize = 12
  AsFound = TRUE
  EmitCases = FALSE
INVARIANT DeclaredShapeIsSemantic
INVARIANT Exact
INVARIANT RoundTrip
INVARIANT LogDetsOpposite
INVARIANT MergeChainsSame
INVARIANT InvertSwaps
CONSTRAINT Emit
VIEW View
CHECK_DEADLOCK FALSE
