----------------------------- MODULE Combinators -----------------------------
(***************************************************************************)
(* The combinators of flowjax.bijections with exact integer semantics      *)
(* (DESIGN 4.6; properties C08, C13, the composite part of C01 - C03).     *)
(*                                                                         *)
(* Arrays are C-order flat sequences of integers with a shape.  Leaves     *)
(* carry exact integer semantics chosen so that any misrouting, reordering *)
(* or dropped part changes the result:                                     *)
(*   aff   y_k = 2^e(id,k) * x_k + b(id,k)      log2-det = sum of e        *)
(*   cadd  y_k = x_k + sum_m W(id,k,m) * c_m    (AdditiveCondition)        *)
(*   perm  y_k = x_{rot(k)}, flip y_k = x_{n-1-k}, ident                   *)
(* Values are multiples of 2^10 so that inverse affine maps stay integral. *)
(*                                                                         *)
(* Run(p, dir, x, c) follows the DEFINITIONS of the combinators ("like     *)
(* jnp.stack", "slice by slice along a new leading axis", "only the        *)
(* indexed entries"); Decl* follow the constructors' shape formulas.       *)
(* The builder machine grows programs by wrapping; every state is checked  *)
(* against the design theorems below and printed as one implementation     *)
(* test whose expected outputs were computed here.                         *)
(***************************************************************************)
EXTENDS Integers, Sequences, FiniteSets, TLC, Json, CombDefs

CONSTANTS Shapes,      \* base shapes of leaves (sequences of extents)
          MaxDepth,    \* number of wraps
          MaxSize,     \* bound on the number of array elements of a program
          Focus,       \* "all": every wrap; "chains": only the Chain / Invert wraps (deep chain nestings, cheaply)
          EmitCases

VARIABLES p, depth, res    \* res: everything computed for p, once (TLC would re-evaluate definitions per use)
vars == <<p, depth, res>>


\* merge_chains never changes the function
RECURSIVE Flatten(_)
Flatten(ps) == IF ps = <<>> THEN <<>>
               ELSE (IF ps[1].k = "chain" THEN Flatten(ps[1].parts) ELSE <<ps[1]>>) \o Flatten(Tail(ps))
Merged(q) == IF q.k = "chain" THEN [k |-> "chain", parts |-> Flatten(q.parts)] ELSE q

Eval(q) ==
  IF ~Valid(q) THEN [valid |-> FALSE]
  ELSE LET X == XOf(SemShape(q))
           C == COf(SemCond(q))
           F == Run(q, "f", X, C)
           I == Run(q, "i", X, C)
           IF_ == Run(q, "i", F.v, C)
           FI_ == Run(q, "f", I.v, C)
           M == Run(Merged(q), "f", X, C)
           V == Run([k |-> "invert", p |-> q], "f", X, C)
       IN [valid |-> TRUE, shape |-> SemShape(q), cs |-> SemCond(q), x |-> X, c |-> C,
           fwd |-> F.v, fld |-> F.ld, inv |-> I.v, ild |-> I.ld,
           declok |-> DeclShape(q) = SemShape(q) /\ DeclCond(q) = SemCond(q),
           exact |-> F.ok /\ I.ok /\ IF_.ok /\ FI_.ok,
           roundtrip |-> IF_.v = X /\ FI_.v = X,
           ldopp |-> IF_.ld = 0 - F.ld /\ FI_.ld = 0 - I.ld,
           merge |-> M.v = F.v /\ M.ld = F.ld,
           invsw |-> V.v = I.v /\ V.ld = I.ld]

\* The exhaustive depth-2 run (thorough tier) keeps to the core leaves and wraps: the later additions (triangular leaves,
\* wrapped starting points, strided slices, vectorised conditional leaves, rank-mismatch invalid compositions) multiply its
\* 1.8e5 programs several times over; they are exhausted at depth 1 and sampled at depth 3.
Rich == MaxDepth # 2
\* ---- the builder machine -------------------------------------------------------------------------------------------
Size(q) == IF Valid(q) THEN Prod(SemShape(q)) ELSE 0      \* (the shape of an invalid composition is undefined)
LeafKinds == {"aff", "cadd", "cadd0", "perm", "flip", "ident", "scan", "tril", "triu"}
MkLeaf(kind, id, s) ==
  CASE kind = "cadd" -> [k |-> "cadd", id |-> id, shape |-> s, cs |-> <<2>>]
    [] kind = "cadd0" -> [k |-> "cadd", id |-> id, shape |-> s, cs |-> <<>>]        \* a scalar condition
    [] kind = "scan" -> [k |-> "scan", ids |-> <<id, id + 1>>, shape |-> s]
    [] OTHER -> [k |-> kind, id |-> id, shape |-> s]
\* an unconditional wrapper around a leaf as a starting point too, so that already the depth-1 compositions put it next to
\* a conditional part (it is then handed a condition it has to ignore)
WrappedLeaf(s) == {[k |-> "reshape", p |-> MkLeaf("aff", 1, <<Prod(s)>>), shape |-> s, cs |-> None],
                   [k |-> "invert", p |-> MkLeaf("aff", 1, s)],
                   [k |-> "partial", p |-> MkLeaf("aff", 1, s), shape |-> <<2>> \o s, idx |-> [kind |-> "int", i |-> 1]]}
Init == /\ \/ \E kind \in LeafKinds, s \in Shapes : (kind \in {"tril", "triu"} => Rich /\ Len(s) = 1) /\ p = MkLeaf(kind, 1, s)
           \/ \E s \in Shapes : Rich /\ Len(s) # 1 /\ p \in WrappedLeaf(s)
        /\ depth = 0 /\ res = Eval(p)

CanWrap == depth < MaxDepth /\ res.valid
FreshId == 2 + 3 * depth
Wrap(q) == Size(q) <= MaxSize /\ p' = q /\ depth' = depth + 1 /\ res' = Eval(q)
Ranks(s) == Len(s)
OtherLeaf(s) == {MkLeaf("aff", FreshId, s), MkLeaf("perm", FreshId, s)}
   \cup (IF Rich /\ Len(s) = 1 THEN {MkLeaf("triu", FreshId, s)} ELSE {})
   \cup (IF SemCond(p) = None THEN {[k |-> "cadd", id |-> FreshId, shape |-> s, cs |-> <<2>>]}
         ELSE {[k |-> "cadd", id |-> FreshId, shape |-> s, cs |-> SemCond(p)]})

WInvert == CanWrap /\ Wrap([k |-> "invert", p |-> p])
WChain == /\ CanWrap
          /\ \E o \in OtherLeaf(SemShape(p)), first \in BOOLEAN :
               Wrap([k |-> "chain", parts |-> IF first THEN <<o, p>> ELSE <<p, o>>])
WNestedChain == /\ CanWrap /\ p.k = "chain"
                /\ Wrap([k |-> "chain", parts |-> <<MkLeaf("aff", FreshId, SemShape(p)), p, MkLeaf("flip", FreshId + 1, SemShape(p))>>])
\* a chain that contains an inverted chain (merge_chains must leave the inverted part alone, or invert its order too)
WChainOfInverted == /\ CanWrap /\ p.k = "chain"
                    /\ Wrap([k |-> "chain", parts |-> <<MkLeaf("aff", FreshId, SemShape(p)), [k |-> "invert", p |-> p],
                                                         MkLeaf("perm", FreshId + 1, SemShape(p))>>])
WVmap == /\ CanWrap
         /\ \E n \in {2, 3}, cax \in {-9, 0, 1, -1, -2} :
              /\ (cax # -9 => SemCond(p) # None /\ cax < Len(SemCond(p)) + 1 /\ -(Len(SemCond(p)) + 1) <= cax)
              /\ \E mapped \in (IF p.k = "aff" \/ (Rich /\ p.k = "cadd") THEN BOOLEAN ELSE {FALSE}) :   \* cadd: parameters AND the condition vectorised
                   Wrap([k |-> "vmap", p |-> p, n |-> n, mapped |-> mapped, cax |-> cax])
WStack == /\ CanWrap
          /\ \E axis \in -(Len(SemShape(p)) + 1)..Len(SemShape(p)), o \in OtherLeaf(SemShape(p)), three \in BOOLEAN :
               Wrap([k |-> "stack", axis |-> axis,
                     parts |-> IF three THEN <<p, o, MkLeaf("ident", FreshId + 1, SemShape(p))>> ELSE <<o, p>>])
WConcat == /\ CanWrap /\ Len(SemShape(p)) >= 1
           /\ \E axis \in -Len(SemShape(p))..(Len(SemShape(p)) - 1), ext \in {1, 2} :
                LET a == NormAxis(axis, Len(SemShape(p))) + 1
                    so == ReplaceAt(SemShape(p), a, ext)
                IN \E o \in OtherLeaf(so), first \in BOOLEAN, three \in BOOLEAN :
                     Wrap([k |-> "concat", axis |-> axis,
                           parts |-> IF three THEN <<p, o, MkLeaf("flip", FreshId + 1, ReplaceAt(SemShape(p), a, 3 - ext))>>
                                     ELSE IF first THEN <<o, p>> ELSE <<p, o>>])
WPartial == /\ CanWrap
            /\ LET s == SemShape(p) IN
               \/ \E n \in {2, 3}, i \in {0, 1, -1} : Wrap([k |-> "partial", p |-> p, shape |-> <<n>> \o s, idx |-> [kind |-> "int", i |-> i]])
               \/ /\ Len(s) >= 1
                  /\ \E extra \in {1, 2}, lo \in {0, 1} : lo <= extra /\
                       Wrap([k |-> "partial", p |-> p, shape |-> ReplaceAt(s, 1, s[1] + extra), idx |-> [kind |-> "slice", lo |-> lo, hi |-> lo + s[1]]])
               \/ /\ Len(s) >= 1 /\ s[1] = 2
                  /\ \E rows \in {<<2, 0>>, <<0, 2>>} : Wrap([k |-> "partial", p |-> p, shape |-> ReplaceAt(s, 1, 3), idx |-> [kind |-> "intarr", rows |-> rows]])
               \/ /\ Len(s) >= 1 /\ s[1] = 2
                  /\ Wrap([k |-> "partial", p |-> p, shape |-> ReplaceAt(s, 1, 3), idx |-> [kind |-> "boolarr", rows |-> <<0, 2>>]])
               \* slices with a step (-99 stands for None): x[0::2], x[::-2] (rows 2, 0), x[1::-1] (rows 1, 0 of 3), x[::2] of 4 with 2 rows
               \/ /\ Rich /\ Len(s) >= 1 /\ s[1] = 2
                  /\ \E sl \in {[lo |-> 0, hi |-> -99, step |-> 2, rows |-> <<0, 2>>, n |-> 3],
                                 [lo |-> -99, hi |-> -99, step |-> -2, rows |-> <<2, 0>>, n |-> 3],
                                 [lo |-> 1, hi |-> -99, step |-> -1, rows |-> <<1, 0>>, n |-> 3],
                                 [lo |-> 1, hi |-> -99, step |-> 2, rows |-> <<1, 3>>, n |-> 4]} :
                       Wrap([k |-> "partial", p |-> p, shape |-> ReplaceAt(s, 1, sl.n),
                             idx |-> [kind |-> "sslice", lo |-> sl.lo, hi |-> sl.hi, step |-> sl.step, rows |-> sl.rows]])
               \/ Wrap([k |-> "partial", p |-> p, shape |-> <<2, 2>> \o s, idx |-> [kind |-> "tuple", i |-> 1, j |-> 0]])
WReshape == /\ CanWrap
            /\ \E s \in Shapes : Prod(s) = Size(p) /\ s # SemShape(p) /\
                 \E cs \in {None} \cup (IF SemCond(p) # None /\ Prod(SemCond(p)) = 2 THEN {<<1, 2>>, <<2, 1>>} ELSE {})
                                   \cup (IF SemCond(p) = <<>> THEN {<<1>>, <<1, 1>>} ELSE {}) :
                   Wrap([k |-> "reshape", p |-> p, shape |-> s, cs |-> cs])
WEmbed == /\ CanWrap /\ SemCond(p) # None
          /\ \E raw \in {<<3>>, <<2, 2>>, <<>>} : Wrap([k |-> "embed", p |-> p, rawcs |-> raw])
\* constructions the constructors document as incompatible (Valid = FALSE); terminal
WInvalid == /\ depth < MaxDepth /\ res.valid
            /\ LET s == SemShape(p)
                   bad == IF s = <<>> THEN <<2>> ELSE ReplaceAt(s, 1, s[1] + 1)
               IN \/ Wrap([k |-> "chain", parts |-> <<p, MkLeaf("aff", FreshId, bad)>>])
                  \/ Wrap([k |-> "stack", axis |-> 0, parts |-> <<p, MkLeaf("aff", FreshId, bad)>>])
                  \/ (Len(s) >= 2 /\ Wrap([k |-> "concat", axis |-> 0, parts |-> <<p, MkLeaf("aff", FreshId, ReplaceAt(s, 2, s[2] + 1))>>]))
                  \* a part of lower RANK whose extents agree with the leading / trailing ones (a zip over the shapes, or an index
                  \* with a negative axis, would not notice)
                  \/ (Rich /\ Len(s) >= 1 /\ \E low \in {SubSeq(s, 1, Len(s) - 1), Tail(s)}, first \in BOOLEAN :
                         \/ Wrap([k |-> "chain", parts |-> IF first THEN <<MkLeaf("aff", FreshId, low), p>> ELSE <<p, MkLeaf("aff", FreshId, low)>>])
                         \/ Wrap([k |-> "stack", axis |-> 0, parts |-> IF first THEN <<MkLeaf("aff", FreshId, low), p>> ELSE <<p, MkLeaf("aff", FreshId, low)>>]))
                  \/ (Rich /\ Len(s) >= 2 /\ \E low \in {SubSeq(s, 1, Len(s) - 1), Tail(s)}, ax \in {-1, 0, 1} :
                         Wrap([k |-> "concat", axis |-> ax, parts |-> <<p, MkLeaf("aff", FreshId, low)>>]))
                  \/ Wrap([k |-> "partial", p |-> p, shape |-> <<2>> \o bad, idx |-> [kind |-> "int", i |-> 0]])
                  \/ Wrap([k |-> "reshape", p |-> p, shape |-> <<Size(p) + 1>>, cs |-> None])
                  \/ (SemCond(p) # None /\ Wrap([k |-> "chain", parts |-> <<p, [k |-> "cadd", id |-> FreshId, shape |-> s, cs |-> <<5>>]>>]))

Next == \/ WInvert \/ WChain \/ WNestedChain \/ WChainOfInverted
        \/ (Focus = "all" /\ (WVmap \/ WStack \/ WConcat \/ WPartial \/ WReshape \/ WEmbed \/ WInvalid))
Spec == Init /\ [][Next]_vars

\* ---- design theorems (computed once per program in Eval, checked as invariants on r) ---------------------------
DeclaredShapeIsSemantic == res.valid => res.declok
Exact == res.valid => res.exact
RoundTrip == res.valid => res.roundtrip
LogDetsOpposite == res.valid => res.ldopp
MergeChainsSame == res.valid => res.merge
InvertSwaps == res.valid => res.invsw

Case == [prog |-> p, depth |-> depth, r |-> res]
Emit == EmitCases => PrintT("CASE " \o ToJson(Case))
\* the state is identified by the program alone
View == p
=============================================================================
