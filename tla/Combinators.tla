----------------------------- MODULE Combinators -----------------------------
(***************************************************************************)
(* The combinators of flowjax.bijections with exact integer semantics      *)
(* (DESIGN 4.6; properties C08, C13, the composite part of C01 - C03).     *)
(*                                                                         *)
(* Arrays are C-order flat sequences of integers with a shape.  Leaves     *)
(* carry exact integer semantics chosen so that any misrouting, reordering *)
(* or dropped part changes the result:                                     *)
(*   aff   y_k = 2^e(id,k) * x_k + b(id,k)      log2-det = sum of e        *)
(*   cadd  y_k = x_k + sum_m W(id,k,m) * c_m    (AdditiveCondition)        *)
(*   perm  y_k = x_{rot(k)}, flip y_k = x_{n-1-k}, ident                   *)
(* Values are multiples of 2^10 so that inverse affine maps stay integral. *)
(*                                                                         *)
(* Run(p, dir, x, c) follows the DEFINITIONS of the combinators ("like     *)
(* jnp.stack", "slice by slice along a new leading axis", "only the        *)
(* indexed entries"); Decl* follow the constructors' shape formulas.       *)
(* The builder machine grows programs by wrapping; every state is checked  *)
(* against the design theorems below and printed as one implementation     *)
(* test whose expected outputs were computed here.                         *)
(***************************************************************************)
EXTENDS Integers, Sequences, FiniteSets, TLC, Json

CONSTANTS Shapes,      \* base shapes of leaves (sequences of extents)
          MaxDepth,    \* number of wraps
          MaxSize,     \* bound on the number of array elements of a program
          AsFound,     \* BOOLEAN: declared-shape formulas as found at the pinned commit (Python slice semantics)
          EmitCases

VARIABLES p, depth, res    \* res: everything computed for p, once (TLC would re-evaluate definitions per use)
vars == <<p, depth, res>>

U == 1024
None == <<-1>>          \* "no condition shape"

\* ---- arrays ----------------------------------------------------------------------------------------------------
RECURSIVE Prod(_)
Prod(s) == IF s = <<>> THEN 1 ELSE s[1] * Prod(Tail(s))
Stride(s, a) == Prod(SubSeq(s, a + 1, Len(s)))                      \* a: 1-based axis
CoordAt(k, s, a) == (k \div Stride(s, a)) % s[a]                    \* k: 0-based flat position
Iota(n) == [k \in 1..n |-> k - 1]
\* flat positions (increasing = C order of the sub-array) whose coordinate on axis a lies in lo..hi-1
SelAxis(s, a, lo, hi) == SelectSeq(Iota(Prod(s)), LAMBDA k : lo <= CoordAt(k, s, a) /\ CoordAt(k, s, a) < hi)
Gather(x, sel) == [j \in 1..Len(sel) |-> x[sel[j] + 1]]
NormAxis(a, rank) == IF a < 0 THEN a + rank ELSE a                  \* 0-based, Python style
ReplaceAt(s, a, v) == [i \in 1..Len(s) |-> IF i = a THEN v ELSE s[i]]
RemoveAt(s, a) == SubSeq(s, 1, a - 1) \o SubSeq(s, a + 1, Len(s))
InsertAt(s, a, v) == SubSeq(s, 1, a - 1) \o <<v>> \o SubSeq(s, a, Len(s))    \* v becomes element a (1-based)
RECURSIVE SumSeq(_)
SumSeq(s) == IF s = <<>> THEN 0 ELSE s[1] + SumSeq(Tail(s))
RECURSIVE Pow2(_)
Pow2(n) == IF n = 0 THEN 1 ELSE 2 * Pow2(n - 1)

\* ---- leaves ------------------------------------------------------------------------------------------------------
AffE(id, k) == (id + k) % 3
AffB(id, k) == U * (5 * id + k + 1)
CW(id, k, m) == ((k + 2 * m + id) % 4) + 1
EmbW(m, r) == ((m + r) % 2) + 1

\* ---- shapes by definition ------------------------------------------------------------------------------------------
RECURSIVE SemShape(_), SemCond(_)
MergeCond(cs) == LET some == {c \in cs : c # None} IN IF some = {} THEN None ELSE CHOOSE c \in some : TRUE
PartialSelShape(idx, s) ==
  CASE idx.kind = "int" -> Tail(s)
    [] idx.kind = "slice" -> <<idx.hi - idx.lo>> \o Tail(s)
    [] idx.kind = "intarr" -> <<Len(idx.rows)>> \o Tail(s)
    [] idx.kind = "boolarr" -> <<Len(idx.rows)>> \o Tail(s)
    [] idx.kind = "tuple" -> SubSeq(s, 3, Len(s))
SemShape(q) ==
  CASE q.k \in {"aff", "cadd", "perm", "flip", "ident", "scan"} -> q.shape
    [] q.k = "chain" -> SemShape(q.parts[1])
    [] q.k = "invert" -> SemShape(q.p)
    [] q.k = "vmap" -> <<q.n>> \o SemShape(q.p)
    [] q.k = "concat" -> LET s1 == SemShape(q.parts[1])
                             a == NormAxis(q.axis, Len(s1)) + 1
                         IN ReplaceAt(s1, a, SumSeq([i \in 1..Len(q.parts) |-> SemShape(q.parts[i])[a]]))
    [] q.k = "stack" -> LET s1 == SemShape(q.parts[1])
                            a == NormAxis(q.axis, Len(s1) + 1) + 1         \* like jnp.stack: against rank + 1
                        IN InsertAt(s1, a, Len(q.parts))
    [] q.k = "partial" -> q.shape
    [] q.k = "reshape" -> q.shape
    [] q.k = "embed" -> SemShape(q.p)
SemCond(q) ==
  CASE q.k \in {"aff", "perm", "flip", "ident", "scan"} -> None
    [] q.k = "cadd" -> q.cs
    [] q.k = "chain" -> MergeCond({SemCond(q.parts[i]) : i \in 1..Len(q.parts)})
    [] q.k = "invert" -> SemCond(q.p)
    [] q.k = "vmap" -> LET c == SemCond(q.p) IN
                       IF c = None \/ q.cax = -9 THEN c
                       ELSE InsertAt(c, NormAxis(q.cax, Len(c) + 1) + 1, q.n)
    [] q.k \in {"concat", "stack"} -> MergeCond({SemCond(q.parts[i]) : i \in 1..Len(q.parts)})
    [] q.k = "partial" -> SemCond(q.p)
    [] q.k = "reshape" -> IF q.cs = None THEN SemCond(q.p) ELSE q.cs
    [] q.k = "embed" -> q.rawcs

\* ---- shapes as the constructors declare them ---------------------------------------------------------------------
PySliceTo(s, a) == IF a >= 0 THEN SubSeq(s, 1, IF a < Len(s) THEN a ELSE Len(s))
                   ELSE SubSeq(s, 1, IF Len(s) + a > 0 THEN Len(s) + a ELSE 0)
PySliceFrom(s, a) == IF a >= 0 THEN SubSeq(s, (IF a < Len(s) THEN a ELSE Len(s)) + 1, Len(s))
                     ELSE SubSeq(s, (IF Len(s) + a > 0 THEN Len(s) + a ELSE 0) + 1, Len(s))
RECURSIVE DeclShape(_), DeclCond(_)
DeclShape(q) ==
  CASE q.k = "stack" -> LET s1 == DeclShape(q.parts[1]) IN
                        IF AsFound THEN PySliceTo(s1, q.axis) \o <<Len(q.parts)>> \o PySliceFrom(s1, q.axis)
                        ELSE InsertAt(s1, NormAxis(q.axis, Len(s1) + 1) + 1, Len(q.parts))
    [] q.k = "vmap" -> <<q.n>> \o DeclShape(q.p)
    [] q.k = "chain" -> DeclShape(q.parts[1])
    [] q.k \in {"invert", "embed"} -> DeclShape(q.p)
    [] OTHER -> SemShape(q)
DeclCond(q) ==
  CASE q.k = "vmap" -> LET c == DeclCond(q.p) IN
                       IF c = None \/ q.cax = -9 THEN c
                       ELSE IF AsFound THEN PySliceTo(c, q.cax) \o <<q.n>> \o PySliceFrom(c, q.cax)
                       ELSE InsertAt(c, NormAxis(q.cax, Len(c) + 1) + 1, q.n)
    [] q.k = "invert" -> DeclCond(q.p)
    [] q.k = "partial" -> DeclCond(q.p)
    [] OTHER -> SemCond(q)

\* ---- semantics ---------------------------------------------------------------------------------------------------
\* selection of Partial: flat positions in the order of x[idxs]
PartialSel(idx, s) ==
  CASE idx.kind = "int" -> SelAxis(s, 1, NormAxis(idx.i, s[1]), NormAxis(idx.i, s[1]) + 1)
    [] idx.kind = "slice" -> SelAxis(s, 1, idx.lo, idx.hi)
    [] idx.kind \in {"intarr", "boolarr"} ->
         LET blocks == [j \in 1..Len(idx.rows) |-> SelAxis(s, 1, idx.rows[j], idx.rows[j] + 1)]
             bl == Prod(Tail(s))
         IN [t \in 1..(Len(idx.rows) * bl) |-> blocks[((t - 1) \div bl) + 1][((t - 1) % bl) + 1]]
    [] idx.kind = "tuple" -> SelectSeq(Iota(Prod(s)), LAMBDA k : CoordAt(k, s, 1) = idx.i /\ CoordAt(k, s, 2) = idx.j)

RECURSIVE Run(_, _, _, _)
\* apply a list of parts to their selections of x and scatter the results back
Scatter(x, sels, outs) ==
  [k \in 1..Len(x) |->
     LET hit == {j \in 1..Len(sels) : \E t \in 1..Len(sels[j]) : sels[j][t] = k - 1}
     IN IF hit = {} THEN x[k]
        ELSE LET j == CHOOSE j \in hit : TRUE
                 t == CHOOSE t \in 1..Len(sels[j]) : sels[j][t] = k - 1
             IN outs[j][t]]
\* fold a sequence of parts sequentially (Chain, Scan): dir "f" in order, dir "i" reversed
RECURSIVE Seq_(_, _, _, _, _)
Seq_(parts, dir, x, c, i) ==
  IF i > Len(parts) THEN [v |-> x, ld |-> 0, ok |-> TRUE]
  ELSE LET q == IF dir = "f" THEN parts[i] ELSE parts[Len(parts) + 1 - i]
           r == Run(q, dir, x, c)
           rest == Seq_(parts, dir, r.v, c, i + 1)
       IN [v |-> rest.v, ld |-> r.ld + rest.ld, ok |-> r.ok /\ rest.ok]
CondFor(q, c) == c      \* every child receives the whole condition unless stated otherwise
Run(q, dir, x, c) ==
  LET n == Len(x) IN
  CASE q.k = "aff" ->
         IF dir = "f"
           THEN [v |-> TLCEval([k \in 1..n |-> Pow2(AffE(q.id, k - 1)) * x[k] + AffB(q.id, k - 1)]),
                 ld |-> SumSeq([k \in 1..n |-> AffE(q.id, k - 1)]), ok |-> TRUE]
           ELSE [v |-> TLCEval([k \in 1..n |-> (x[k] - AffB(q.id, k - 1)) \div Pow2(AffE(q.id, k - 1))]),
                 ld |-> 0 - SumSeq([k \in 1..n |-> AffE(q.id, k - 1)]),
                 ok |-> \A k \in 1..n : (x[k] - AffB(q.id, k - 1)) % Pow2(AffE(q.id, k - 1)) = 0]
    [] q.k = "cadd" ->
         LET add == [k \in 1..n |-> SumSeq([m \in 1..Len(c) |-> CW(q.id, k - 1, m - 1) * c[m]])] IN
         [v |-> TLCEval([k \in 1..n |-> IF dir = "f" THEN x[k] + add[k] ELSE x[k] - add[k]]), ld |-> 0, ok |-> TRUE]
    [] q.k = "perm" ->     \* Permute(permutation): y = x[permutation], permutation = rotation by one
         [v |-> TLCEval([k \in 1..n |-> IF dir = "f" THEN x[(k % n) + 1] ELSE x[((k + n - 2) % n) + 1]]), ld |-> 0, ok |-> TRUE]
    [] q.k = "flip" -> [v |-> TLCEval([k \in 1..n |-> x[n + 1 - k]]), ld |-> 0, ok |-> TRUE]
    [] q.k = "ident" -> [v |-> x, ld |-> 0, ok |-> TRUE]
    [] q.k = "scan" -> Seq_([i \in 1..Len(q.ids) |-> [k |-> "aff", id |-> q.ids[i], shape |-> q.shape]], dir, x, c, 1)
    [] q.k = "chain" -> Seq_(q.parts, dir, x, c, 1)
    [] q.k = "invert" -> Run(q.p, IF dir = "f" THEN "i" ELSE "f", x, c)
    [] q.k = "vmap" ->
         LET s == SemShape(q)
             cc == SemCond(q)
             ic == SemCond(q.p)
             sels == [i \in 1..q.n |-> SelAxis(s, 1, i - 1, i)]
             \* parameters mapped: slice i is transformed by its own leaf (id + 10*(i-1)); broadcast: the same leaf
             child(i) == IF q.mapped THEN [q.p EXCEPT !.id = q.p.id + 10 * (i - 1)] ELSE q.p
             condOf(i) == IF ic = None \/ q.cax = -9 THEN c
                          ELSE Gather(c, SelAxis(cc, NormAxis(q.cax, Len(ic) + 1) + 1, i - 1, i))
             rs == [i \in 1..q.n |-> Run(child(i), dir, Gather(x, sels[i]), condOf(i))]
         IN [v |-> TLCEval(Scatter(x, sels, [i \in 1..q.n |-> rs[i].v])),
             ld |-> SumSeq([i \in 1..q.n |-> rs[i].ld]), ok |-> \A i \in 1..q.n : rs[i].ok]
    [] q.k = "concat" ->
         LET s == SemShape(q)
             a == NormAxis(q.axis, Len(s)) + 1
             lens == [i \in 1..Len(q.parts) |-> SemShape(q.parts[i])[a]]
             off(i) == SumSeq(SubSeq(lens, 1, i - 1))
             sels == [i \in 1..Len(q.parts) |-> SelAxis(s, a, off(i), off(i) + lens[i])]
             rs == [i \in 1..Len(q.parts) |-> Run(q.parts[i], dir, Gather(x, sels[i]), c)]
         IN [v |-> TLCEval(Scatter(x, sels, [i \in 1..Len(q.parts) |-> rs[i].v])),
             ld |-> SumSeq([i \in 1..Len(q.parts) |-> rs[i].ld]), ok |-> \A i \in 1..Len(q.parts) : rs[i].ok]
    [] q.k = "stack" ->
         LET s == SemShape(q)
             a == NormAxis(q.axis, Len(s)) + 1
             sels == [i \in 1..Len(q.parts) |-> SelAxis(s, a, i - 1, i)]
             rs == [i \in 1..Len(q.parts) |-> Run(q.parts[i], dir, Gather(x, sels[i]), c)]
         IN [v |-> TLCEval(Scatter(x, sels, [i \in 1..Len(q.parts) |-> rs[i].v])),
             ld |-> SumSeq([i \in 1..Len(q.parts) |-> rs[i].ld]), ok |-> \A i \in 1..Len(q.parts) : rs[i].ok]
    [] q.k = "partial" ->
         LET sel == PartialSel(q.idx, q.shape)
             r == Run(q.p, dir, Gather(x, sel), c)
         IN [v |-> TLCEval(Scatter(x, <<sel>>, <<r.v>>)), ld |-> r.ld, ok |-> r.ok]
    [] q.k = "reshape" -> Run(q.p, dir, x, c)           \* C-order flat data: reshaping only re-presents
    [] q.k = "embed" ->
         LET m == Prod(SemCond(q.p))
             emb == [j \in 1..m |-> SumSeq([r \in 1..Len(c) |-> EmbW(j - 1, r - 1) * c[r]])]
         IN Run(q.p, dir, x, emb)

\* ---- constructor validity (the incompatibilities the constructors document) ------------------------------------
RECURSIVE Valid(_)
CondsAgree(ps) == Cardinality({SemCond(ps[i]) : i \in 1..Len(ps)} \ {None}) <= 1
Valid(q) ==
  CASE q.k \in {"aff", "cadd", "perm", "flip", "ident", "scan"} -> TRUE
    [] q.k = "chain" -> /\ \A i \in 1..Len(q.parts) : Valid(q.parts[i])
                        /\ \A i \in 1..Len(q.parts) : SemShape(q.parts[i]) = SemShape(q.parts[1])
                        /\ CondsAgree(q.parts)
    [] q.k = "invert" -> Valid(q.p)
    [] q.k = "vmap" -> Valid(q.p)
    [] q.k = "concat" -> /\ \A i \in 1..Len(q.parts) : Valid(q.parts[i])
                         /\ LET s1 == SemShape(q.parts[1]) IN
                            /\ Len(s1) >= 1 /\ -Len(s1) <= q.axis /\ q.axis < Len(s1)
                            /\ \A i \in 1..Len(q.parts) :
                                 /\ Len(SemShape(q.parts[i])) = Len(s1)
                                 /\ RemoveAt(SemShape(q.parts[i]), NormAxis(q.axis, Len(s1)) + 1) = RemoveAt(s1, NormAxis(q.axis, Len(s1)) + 1)
                         /\ CondsAgree(q.parts)
    [] q.k = "stack" -> /\ \A i \in 1..Len(q.parts) : Valid(q.parts[i])
                        /\ \A i \in 1..Len(q.parts) : SemShape(q.parts[i]) = SemShape(q.parts[1])
                        /\ CondsAgree(q.parts)
    [] q.k = "partial" -> Valid(q.p) /\ PartialSelShape(q.idx, q.shape) = SemShape(q.p)
    [] q.k = "reshape" -> /\ Valid(q.p) /\ Prod(q.shape) = Prod(SemShape(q.p))
                          /\ (q.cs # None => SemCond(q.p) # None /\ Prod(q.cs) = Prod(SemCond(q.p)))
    [] q.k = "embed" -> Valid(q.p) /\ SemCond(q.p) # None

\* ---- inputs --------------------------------------------------------------------------------------------------------
XOf(s) == [k \in 1..Prod(s) |-> U * (3 * k + 2)]
COf(cs) == IF cs = None THEN <<>> ELSE [m \in 1..Prod(cs) |-> U * (2 * m + 1)]

\* merge_chains never changes the function
RECURSIVE Flatten(_)
Flatten(ps) == IF ps = <<>> THEN <<>>
               ELSE (IF ps[1].k = "chain" THEN Flatten(ps[1].parts) ELSE <<ps[1]>>) \o Flatten(Tail(ps))
Merged(q) == IF q.k = "chain" THEN [k |-> "chain", parts |-> Flatten(q.parts)] ELSE q

Eval(q) ==
  IF ~Valid(q) THEN [valid |-> FALSE]
  ELSE LET X == XOf(SemShape(q))
           C == COf(SemCond(q))
           F == Run(q, "f", X, C)
           I == Run(q, "i", X, C)
           IF_ == Run(q, "i", F.v, C)
           FI_ == Run(q, "f", I.v, C)
           M == Run(Merged(q), "f", X, C)
           V == Run([k |-> "invert", p |-> q], "f", X, C)
       IN [valid |-> TRUE, shape |-> SemShape(q), cs |-> SemCond(q), x |-> X, c |-> C,
           fwd |-> F.v, fld |-> F.ld, inv |-> I.v, ild |-> I.ld,
           declok |-> DeclShape(q) = SemShape(q) /\ DeclCond(q) = SemCond(q),
           exact |-> F.ok /\ I.ok /\ IF_.ok /\ FI_.ok,
           roundtrip |-> IF_.v = X /\ FI_.v = X,
           ldopp |-> IF_.ld = 0 - F.ld /\ FI_.ld = 0 - I.ld,
           merge |-> M.v = F.v /\ M.ld = F.ld,
           invsw |-> V.v = I.v /\ V.ld = I.ld]

\* ---- the builder machine -------------------------------------------------------------------------------------------
Size(q) == Prod(SemShape(q))
LeafKinds == {"aff", "cadd", "perm", "flip", "ident", "scan"}
MkLeaf(kind, id, s) ==
  CASE kind = "cadd" -> [k |-> "cadd", id |-> id, shape |-> s, cs |-> <<2>>]
    [] kind = "scan" -> [k |-> "scan", ids |-> <<id, id + 1>>, shape |-> s]
    [] OTHER -> [k |-> kind, id |-> id, shape |-> s]
Init == /\ \E kind \in LeafKinds, s \in Shapes : p = MkLeaf(kind, 1, s)
        /\ depth = 0 /\ res = Eval(p)

CanWrap == depth < MaxDepth /\ res.valid
FreshId == 2 + 3 * depth
Wrap(q) == Size(q) <= MaxSize /\ p' = q /\ depth' = depth + 1 /\ res' = Eval(q)
Ranks(s) == Len(s)
OtherLeaf(s) == {MkLeaf("aff", FreshId, s), MkLeaf("perm", FreshId, s)}
   \cup (IF SemCond(p) = None THEN {[k |-> "cadd", id |-> FreshId, shape |-> s, cs |-> <<2>>]}
         ELSE {[k |-> "cadd", id |-> FreshId, shape |-> s, cs |-> SemCond(p)]})

WInvert == CanWrap /\ Wrap([k |-> "invert", p |-> p])
WChain == /\ CanWrap
          /\ \E o \in OtherLeaf(SemShape(p)), first \in BOOLEAN :
               Wrap([k |-> "chain", parts |-> IF first THEN <<o, p>> ELSE <<p, o>>])
WNestedChain == /\ CanWrap /\ p.k = "chain"
                /\ Wrap([k |-> "chain", parts |-> <<MkLeaf("aff", FreshId, SemShape(p)), p, MkLeaf("flip", FreshId + 1, SemShape(p))>>])
WVmap == /\ CanWrap
         /\ \E n \in {2, 3}, cax \in {-9, 0, 1, -1, -2} :
              /\ (cax # -9 => SemCond(p) # None /\ cax < Len(SemCond(p)) + 1 /\ -(Len(SemCond(p)) + 1) <= cax)
              /\ \E mapped \in (IF p.k = "aff" THEN BOOLEAN ELSE {FALSE}) :
                   Wrap([k |-> "vmap", p |-> p, n |-> n, mapped |-> mapped, cax |-> cax])
WStack == /\ CanWrap
          /\ \E axis \in -(Len(SemShape(p)) + 1)..Len(SemShape(p)), o \in OtherLeaf(SemShape(p)), three \in BOOLEAN :
               Wrap([k |-> "stack", axis |-> axis,
                     parts |-> IF three THEN <<p, o, MkLeaf("ident", FreshId + 1, SemShape(p))>> ELSE <<o, p>>])
WConcat == /\ CanWrap /\ Len(SemShape(p)) >= 1
           /\ \E axis \in -Len(SemShape(p))..(Len(SemShape(p)) - 1), ext \in {1, 2} :
                LET a == NormAxis(axis, Len(SemShape(p))) + 1
                    so == ReplaceAt(SemShape(p), a, ext)
                IN \E o \in OtherLeaf(so), first \in BOOLEAN, three \in BOOLEAN :
                     Wrap([k |-> "concat", axis |-> axis,
                           parts |-> IF three THEN <<p, o, MkLeaf("flip", FreshId + 1, ReplaceAt(SemShape(p), a, 3 - ext))>>
                                     ELSE IF first THEN <<o, p>> ELSE <<p, o>>])
WPartial == /\ CanWrap
            /\ LET s == SemShape(p) IN
               \/ \E n \in {2, 3}, i \in {0, 1, -1} : Wrap([k |-> "partial", p |-> p, shape |-> <<n>> \o s, idx |-> [kind |-> "int", i |-> i]])
               \/ /\ Len(s) >= 1
                  /\ \E extra \in {1, 2}, lo \in {0, 1} : lo <= extra /\
                       Wrap([k |-> "partial", p |-> p, shape |-> ReplaceAt(s, 1, s[1] + extra), idx |-> [kind |-> "slice", lo |-> lo, hi |-> lo + s[1]]])
               \/ /\ Len(s) >= 1 /\ s[1] = 2
                  /\ \E rows \in {<<2, 0>>, <<0, 2>>} : Wrap([k |-> "partial", p |-> p, shape |-> ReplaceAt(s, 1, 3), idx |-> [kind |-> "intarr", rows |-> rows]])
               \/ /\ Len(s) >= 1 /\ s[1] = 2
                  /\ Wrap([k |-> "partial", p |-> p, shape |-> ReplaceAt(s, 1, 3), idx |-> [kind |-> "boolarr", rows |-> <<0, 2>>]])
               \/ Wrap([k |-> "partial", p |-> p, shape |-> <<2, 2>> \o s, idx |-> [kind |-> "tuple", i |-> 1, j |-> 0]])
WReshape == /\ CanWrap
            /\ \E s \in Shapes : Prod(s) = Size(p) /\ s # SemShape(p) /\
                 \E cs \in {None} \cup (IF SemCond(p) # None /\ Prod(SemCond(p)) = 2 THEN {<<1, 2>>, <<2, 1>>} ELSE {}) :
                   Wrap([k |-> "reshape", p |-> p, shape |-> s, cs |-> cs])
WEmbed == /\ CanWrap /\ SemCond(p) # None
          /\ \E raw \in {<<3>>, <<2, 2>>} : Wrap([k |-> "embed", p |-> p, rawcs |-> raw])
\* constructions the constructors document as incompatible (Valid = FALSE); terminal
WInvalid == /\ depth < MaxDepth /\ res.valid
            /\ LET s == SemShape(p)
                   bad == IF s = <<>> THEN <<2>> ELSE ReplaceAt(s, 1, s[1] + 1)
               IN \/ Wrap([k |-> "chain", parts |-> <<p, MkLeaf("aff", FreshId, bad)>>])
                  \/ Wrap([k |-> "stack", axis |-> 0, parts |-> <<p, MkLeaf("aff", FreshId, bad)>>])
                  \/ (Len(s) >= 2 /\ Wrap([k |-> "concat", axis |-> 0, parts |-> <<p, MkLeaf("aff", FreshId, ReplaceAt(s, 2, s[2] + 1))>>]))
                  \/ Wrap([k |-> "partial", p |-> p, shape |-> <<2>> \o bad, idx |-> [kind |-> "int", i |-> 0]])
                  \/ Wrap([k |-> "reshape", p |-> p, shape |-> <<Size(p) + 1>>, cs |-> None])
                  \/ (SemCond(p) # None /\ Wrap([k |-> "chain", parts |-> <<p, [k |-> "cadd", id |-> FreshId, shape |-> s, cs |-> <<5>>]>>]))

Next == WInvert \/ WChain \/ WNestedChain \/ WVmap \/ WStack \/ WConcat \/ WPartial \/ WReshape \/ WEmbed \/ WInvalid
Spec == Init /\ [][Next]_vars

\* ---- design theorems (computed once per program in Eval, checked as invariants on r) ---------------------------
DeclaredShapeIsSemantic == res.valid => res.declok
Exact == res.valid => res.exact
RoundTrip == res.valid => res.roundtrip
LogDetsOpposite == res.valid => res.ldopp
MergeChainsSame == res.valid => res.merge
InvertSwaps == res.valid => res.invsw

Case == [prog |-> p, depth |-> depth, r |-> res]
Emit == EmitCases => PrintT("CASE " \o ToJson(Case))
\* the state is identified by the program alone
View == p
=============================================================================
