SPECIFICATION Spec
CONSTANTS
  Dims = {1, 2, 3, 4, 5}
  Conds = {0, 1, 2}
  Widths = {1, 2, 3, 4, 5, 6, 7}
  Depths = {0, 1, 2, 3}
  NPars = {1, 2, 3}
  EmitCases = TRUE
INVARIANT Autoregressive
INVARIANT RankBound
INVARIANT NothingMissing
INVARIANT InverseOrder
INVARIANT NoStuckInverse
CONSTRAINT Emit
CHECK_DEADLOCK FALSE
