\* Tie variant: two epochs may share a validation loss. The stopping clauses of C16 quantify over DISTINCT losses
\* (with a tie the code counts patience from the FIRST minimum but treats the tie as a new best), so only the
\* tie-insensitive invariants are checked here; ReturnsArgmin accepts any epoch achieving the minimum.
SPECIFICATION Spec
CONSTANTS
  Rows = {r1, r2}
  L = 4
  Batches = {1}
  NVals = {1}
  MaxEp = 5
  MaxPat = 4
  Ties = TRUE
  EmitCases = FALSE
SYMMETRY RowSym
VIEW View
INVARIANT TypeOK
INVARIANT Partition
INVARIANT AtMostOncePerEpoch
INVARIANT OnlyRemainderSkipped
INVARIANT NoValidationGradient
INVARIANT FreshKeys
INVARIANT OneLossPerEpoch
INVARIANT ReturnsArgmin
INVARIANT ReturnsLast
INVARIANT ReturnsInitialIfNoEpoch
INVARIANT StepBound
CHECK_DEADLOCK FALSE
