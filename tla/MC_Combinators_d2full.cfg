SPECIFICATION Spec
CONSTANTS
  Shapes <- ShapesFull
  MaxDepth = 2
  Focus = "all"
  MaxSize = 16
  AsFound = FALSE
  EmitCases = TRUE
INVARIANT DeclaredShapeIsSemantic
INVARIANT Exact
INVARIANT RoundTrip
INVARIANT LogDetsOpposite
INVARIANT MergeChainsSame
INVARIANT InvertSwaps
CONSTRAINT Emit
VIEW View
CHECK_DEADLOCK FALSE
