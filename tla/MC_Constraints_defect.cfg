\* the defect repaired by 5dc218a: without the division PlanarInvertible must FAIL (non-vacuity of the invariant)
SPECIFICATION Spec
CONSTANTS
  Ints <- IntsDef
  Gs <- GsDef
  Slopes <- SlopesDef
  Exps <- ExpsDef
  Adjs <- AdjsDef
  Softs <- SoftsDef
  Intervals <- IntervalsDef
  Floors <- FloorsDef
  KnotsK = 3
  DividePlanarBySlope = FALSE
  EmitCases = FALSE
INVARIANT PlanarInvertible
INVARIANT PlanarProjectsOntoM
INVARIANT KnotsIncreasing
INVARIANT KnotsNeverDecrease
INVARIANT KnotsSpan
INVARIANT RowKeepsNorm
INVARIANT AtLeastFloor
INVARIANT MixtureNormalised
CONSTRAINT Emit
CHECK_DEADLOCK FALSE
