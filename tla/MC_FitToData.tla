---- MODULE MC_FitToData ----
EXTENDS FitToData
RowSym == Permutations(Rows)
\* bounded liveness variant: the run is over within a number of steps linear in the configuration
StepBound == TLCGet("level") <= 3 + cfg.maxEpochs * (2 * N + 5) + 2
====
