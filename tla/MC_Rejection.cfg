SPECIFICATION Spec
CONSTANTS
  N = 4
  MaxRounds = 6
INVARIANT ExactlyN
INVARIANT NeverShort
INVARIANT OvershootBounded
CHECK_DEADLOCK FALSE
