SPECIFICATION Spec
CONSTANTS
  Dims = {1, 2, 3, 5}
  Conds = {0, 1, 2}
  Widths = {1, 2, 3, 5, 6}
  Depths = {0, 1, 2}
  NPars = {1, 2}
  EmitCases = TRUE
INVARIANT Autoregressive
INVARIANT RankBound
INVARIANT NothingMissing
INVARIANT InverseOrder
INVARIANT NoStuckInverse
CONSTRAINT Emit
CHECK_DEADLOCK FALSE
