SPECIFICATION Spec
CONSTANTS
  AMax = 4
  KMax = 6
  MaxIters = {0, 1, 3, 5}
  TolWs = {2, 4, 16, 64, 256}
  Dim = 1
  EmitCases = FALSE
INVARIANT Bracket
INVARIANT Accurate
INVARIANT AccurateByIter
INVARIANT ExactHit
INVARIANT HitCollapses
INVARIANT EndsIncluded
INVARIANT WidthHalves
INVARIANT AdaptCovers
INVARIANT AdaptBound
INVARIANT IterBound
INVARIANT StillExact
INVARIANT PrefixFinal
INVARIANT LevelBound
CONSTRAINT Emit
CHECK_DEADLOCK FALSE
