SPECIFICATION Spec
CONSTANTS
  Layer = "P"
  Skip = {}
CONSTRAINT Reg
INVARIANT NoValidationGradient
INVARIANT Disjoint
INVARIANT EpochBound
POSTCONDITION Post
CHECK_DEADLOCK FALSE
