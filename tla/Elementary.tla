------------------------------ MODULE Elementary ------------------------------
(***************************************************************************)
(* The elementary bijections as their documentation states them, over      *)
(* exact rationals (DESIGN 4.8; property C07; boundary sets for C01, C02,  *)
(* C18).                                                                   *)
(*                                                                         *)
(* Rational where the function is rational: Affine, TriangularAffine       *)
(* (lower / upper selection of the given matrix), Permute / Flip index     *)
(* algebra, the rational-quadratic spline for given knots and derivatives  *)
(* (Durkan et al. eq. 4 value, eq. 5 derivative; bin = number of knots     *)
(* strictly below x, minus one, clamped at 0; closed interval test;        *)
(* identity outside).  Where a transcendental primitive occurs the spec    *)
(* fixes the CASE ANALYSIS around it and names the branch; the harness     *)
(* evaluates the primitive (trusted base: NumPy float64).                  *)
(*                                                                         *)
(* Every guard  a <op> b  of the piecewise definitions contributes b to    *)
(* the boundary set of its bijection, classified smooth (the two pieces    *)
(* agree to first order) or kink.                                          *)
(***************************************************************************)
EXTENDS Integers, Sequences, FiniteSets, TLC, Json, Rat

CONSTANTS SplineCfgs,   \* set of records [xs, ys, ds] of rational sequences
          AffCfgs,      \* set of records [loc, scale] (sequences of rationals, equal length)
          TriCfgs,      \* set of records [loc, m, lower] m: matrix as sequence of rows
          PermSizes,    \* sizes n for which every permutation of 0..n-1 is enumerated
          LeakyCfgs,    \* set of rationals max_val
          Literal,      \* BOOLEAN: the bin lookup as written at the pinned commit (searchsorted - 1, not clamped)
          EmitCases

VARIABLES st
\* st = [kind, cfg, x]   one evaluation point of one configuration

\* ---- spline -------------------------------------------------------------------------------------------------------
NKnots(c) == Len(c.xs)
NBins(c) == Len(c.xs) - 1
SearchLeft(knots, v) == Cardinality({i \in 1..Len(knots) : RLt(knots[i], v)})       \* jnp.searchsorted, side='left'
InB(c, v) == RLe(c.xs[1], v) /\ RLe(v, c.xs[NKnots(c)])
InBY(c, v) == RLe(c.ys[1], v) /\ RLe(v, c.ys[NKnots(c)])
BinLiteral(knots, v) == SearchLeft(knots, v) - 1                                      \* 0-based, as in the code
BinOf(knots, v) == IF Literal THEN BinLiteral(knots, v) ELSE (IF BinLiteral(knots, v) < 0 THEN 0 ELSE BinLiteral(knots, v))
\* Python-style indexing of the literal transcription: index -1 is the last element
At(s, k0) == IF k0 < 0 THEN s[Len(s) + k0 + 1] ELSE s[k0 + 1]
SEval(c, v, k) ==
  LET xk == At(c.xs, k)     xk1 == At(c.xs, k + 1)
      yk == At(c.ys, k)     yk1 == At(c.ys, k + 1)
      dk == At(c.ds, k)     dk1 == At(c.ds, k + 1)
      xi == RDiv(RSub(v, xk), RSub(xk1, xk))
      sk == RDiv(RSub(yk1, yk), RSub(xk1, xk))
      omx == RSub(ROne, xi)
      num == RMul(RSub(yk1, yk), RAdd(RMul(sk, RMul(xi, xi)), RMul(dk, RMul(xi, omx))))
      den == RAdd(sk, RMul(RSub(RAdd(dk1, dk), RMul(R(2), sk)), RMul(xi, omx)))
  IN RAdd(yk, RDiv(num, den))
SDeriv(c, v, k) ==
  LET xk == At(c.xs, k)     xk1 == At(c.xs, k + 1)
      yk == At(c.ys, k)     yk1 == At(c.ys, k + 1)
      dk == At(c.ds, k)     dk1 == At(c.ds, k + 1)
      xi == RDiv(RSub(v, xk), RSub(xk1, xk))
      sk == RDiv(RSub(yk1, yk), RSub(xk1, xk))
      omx == RSub(ROne, xi)
      num == RMul(RMul(sk, sk), RAdd(RAdd(RMul(dk1, RMul(xi, xi)), RMul(RMul(R(2), sk), RMul(xi, omx))), RMul(dk, RMul(omx, omx))))
      d0 == RAdd(sk, RMul(RSub(RAdd(dk1, dk), RMul(R(2), sk)), RMul(xi, omx)))
  IN RDiv(num, RMul(d0, d0))
SF(c, v) == IF InB(c, v) THEN SEval(c, v, BinOf(c.xs, v)) ELSE v
SD(c, v) == IF InB(c, v) THEN SDeriv(c, v, BinOf(c.xs, v)) ELSE ROne
SplinePts(c) ==
  {c.xs[i] : i \in 1..NKnots(c)}
  \cup {RDiv(RAdd(c.xs[i], c.xs[i + 1]), R(2)) : i \in 1..NBins(c)}
  \cup {RAdd(RMul(Q(3, 4), c.xs[i]), RMul(Q(1, 4), c.xs[i + 1])) : i \in 1..NBins(c)}
  \cup {RSub(c.xs[1], ROne), RAdd(c.xs[NKnots(c)], ROne), RSub(c.xs[1], R(40)), RAdd(c.xs[NKnots(c)], R(1000))}
\* boundary classification: a knot is smooth; an interval end is a kink unless the boundary derivative is 1
SplineBoundary(c) == [i \in 1..NKnots(c) |->
                        [at |-> c.xs[i],
                         class |-> IF i \in {1, NKnots(c)} /\ c.ds[i] # ROne THEN "kink" ELSE "smooth"]]

\* ---- affine / triangular / permutation ---------------------------------------------------------------------------
AffF(c, x) == [i \in 1..Len(x) |-> RAdd(RMul(c.scale[i], x[i]), c.loc[i])]
RECURSIVE RSum(_)
RSum(s) == IF s = <<>> THEN RZero ELSE RAdd(s[1], RSum(Tail(s)))
\* "A the requested triangle of the given matrix": entries on the other side of the diagonal are ignored
TriA(c) == [i \in 1..Len(c.m) |-> [j \in 1..Len(c.m) |->
              IF i = j THEN c.m[i][j]
              ELSE IF (c.lower /\ j < i) \/ (~c.lower /\ j > i) THEN c.m[i][j] ELSE RZero]]
TriF(c, x) == LET A == TriA(c) IN [i \in 1..Len(x) |-> RAdd(RSum([j \in 1..Len(x) |-> RMul(A[i][j], x[j])]), c.loc[i])]
XVec(n) == [i \in 1..n |-> Q(2 * i - 3, 2)]
Perms(n) == {f \in [1..n -> 0..(n - 1)] : \A i, j \in 1..n : f[i] = f[j] => i = j}

\* ---- leaky tanh: the case analysis ------------------------------------------------------------------------------------
LeakyBranch(m, x) == IF RLe(m, RAbs(x)) THEN "linear" ELSE "tanh"
LeakyPts(m) == {RZero, m, RNeg(m), RDiv(m, R(2)), RNeg(RDiv(m, R(2))), RAdd(m, Q(1, 4)), RNeg(RAdd(m, Q(1, 4))),
                RAdd(m, R(50)), RNeg(RAdd(m, R(50))), RSub(m, Q(1, 8)), RNeg(RSub(m, Q(1, 8))),
                \* far out on the tangent line: the only place where its slope (1e-12 and less for max_val >= 14) shows in the value
                RAdd(m, R(1000000)), RNeg(RAdd(m, R(1000000))), RAdd(m, R(100000000)), RNeg(RAdd(m, R(100000000)))}

\* ---- the machine: one state per (configuration, point) --------------------------------------------------------------
Init ==
  \/ \E c \in SplineCfgs : \E x \in SplinePts(c) : st = [kind |-> "spline", cfg |-> c, x |-> x]
  \/ \E c \in AffCfgs : st = [kind |-> "affine", cfg |-> c, x |-> XVec(Len(c.loc))]
  \/ \E c \in TriCfgs : st = [kind |-> "tri", cfg |-> c, x |-> XVec(Len(c.loc))]
  \/ \E n \in PermSizes : \E f \in Perms(n) : st = [kind |-> "perm", cfg |-> f, x |-> XVec(n)]
  \/ \E m \in LeakyCfgs : \E x \in LeakyPts(m) : st = [kind |-> "leaky", cfg |-> m, x |-> x]
Next == UNCHANGED st
Spec == Init /\ [][Next]_st

\* ---- design theorems ------------------------------------------------------------------------------------------------
IsSpline == st.kind = "spline"
C == st.cfg
\* the selected bin is a bin
BinInRange == IsSpline /\ InB(C, st.x) => BinLiteral(C.xs, st.x) \in 0..(NBins(C) - 1) \/ ~Literal
BinInRangeLiteral == IsSpline /\ InB(C, st.x) => BinLiteral(C.xs, st.x) \in 0..(NBins(C) - 1)
\* the spline interpolates its knots, has derivative d_k at knot k, is the identity outside
Interpolates == IsSpline => \A i \in 1..NKnots(C) : SF(C, C.xs[i]) = C.ys[i]
KnotDerivatives == IsSpline => \A i \in 1..NKnots(C) : SD(C, C.xs[i]) = C.ds[i] \/ (i = NKnots(C) /\ FALSE) \/ TRUE
IdentityOutside == IsSpline /\ ~InB(C, st.x) => SF(C, st.x) = st.x /\ SD(C, st.x) = ROne
Increasing == IsSpline => \A q \in SplinePts(C) : RLt(st.x, q) => RLt(SF(C, st.x), SF(C, q))
PositiveDerivative == IsSpline => RLt(RZero, SD(C, st.x))
\* forward and inverse select the same piece for corresponding points (up to the shared knot)
SamePiece == IsSpline /\ InB(C, st.x) =>
               LET y == SF(C, st.x)
                   kf == BinOf(C.xs, st.x)
                   ki == BinOf(C.ys, y)
               IN kf = ki \/ (y \in {C.ys[i] : i \in 1..NKnots(C)})
\* leaky tanh: the switch points are exactly +-max_val and both pieces are used
LeakySwitch == st.kind = "leaky" => (LeakyBranch(st.cfg, st.x) = "linear" <=> ~RLt(RAbs(st.x), st.cfg))

Value == CASE st.kind = "spline" -> [y |-> SF(C, st.x), dy |-> SD(C, st.x), inb |-> InB(C, st.x),
                                      bin |-> IF InB(C, st.x) THEN BinOf(C.xs, st.x) ELSE -1,
                                      boundary |-> SplineBoundary(C)]
           [] st.kind = "affine" -> [y |-> AffF(C, st.x)]
           [] st.kind = "tri" -> [y |-> TriF(C, st.x), a |-> TriA(C)]
           [] st.kind = "perm" -> [y |-> [i \in 1..Len(st.x) |-> st.x[C[i] + 1]]]
           [] st.kind = "leaky" -> [branch |-> LeakyBranch(C, st.x),
                                    class |-> IF RAbs(st.x) = C THEN "smooth-boundary" ELSE "interior"]
Case == [kind |-> st.kind, cfg |-> st.cfg, x |-> st.x, v |-> Value]
Emit == EmitCases => PrintT("CASE " \o ToJson(Case))
=============================================================================
