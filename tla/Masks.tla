-------------------------------- MODULE Masks --------------------------------
(***************************************************************************)
(* Dependency structure of the masked autoregressive network, the coupling *)
(* layer and the block autoregressive network (DESIGN 4.5, property C09),  *)
(* and the sequential inverse of the masked autoregressive bijection (C01). *)
(*                                                                         *)
(* Transcribed from flowjax/bijections/masked_autoregressive.py (rank      *)
(* assignment, rank_based_mask with >= on hidden layers and > on the last  *)
(* layer), flowjax/masks.py (block_diag_mask, block_tril_mask) and         *)
(* block_autoregressive_network.py (block shapes per layer).               *)
(*                                                                         *)
(* The state machine: Init picks a configuration; Layer composes one more  *)
(* masked layer into `reach` (so the induction over depth is visible in the *)
(* state graph); once all layers are composed, Pass(r) of the sequential   *)
(* inverse marks coordinate r final and is enabled only if the transformer *)
(* parameters of coordinate r reach final coordinates (and the condition)  *)
(* only.                                                                   *)
(***************************************************************************)
EXTENDS Integers, Sequences, FiniteSets, TLC, Json

CONSTANTS Dims, Conds, Widths, Depths, NPars, EmitCases

VARIABLES cfg, nl, reach, final
vars == <<cfg, nl, reach, final>>

\* ---- rank assignment ----------------------------------------------------------------------------------------
NIn(c) == c.dim + c.cond
\* inputs 1..dim are x_0..x_{dim-1} with ranks 0..dim-1; inputs dim+1.. are the condition with rank -1
InRanks(c) == [i \in 1..NIn(c) |-> IF i <= c.dim THEN i - 1 ELSE -1]
\* hidden ranks: unconditional  j mod (dim-1)  (dim = 1: all zero -- the code's comment; arange(w) % 0 is 0 in JAX)
\*               conditional    (j mod dim) - 1
HiddenRanks(c) == [j \in 1..c.width |->
                     IF c.cond = 0 THEN (IF c.dim = 1 THEN 0 ELSE (j - 1) % (c.dim - 1))
                     ELSE ((j - 1) % c.dim) - 1]
\* output o (1-based) parameterises coordinate (o-1) div npar
OutRanks(c) == [o \in 1..(c.dim * c.npar) |-> (o - 1) \div c.npar]
NLayers(c) == c.depth + 1
RanksAt(c, l) == IF l = 0 THEN InRanks(c) ELSE IF l = NLayers(c) THEN OutRanks(c) ELSE HiddenRanks(c)
\* mask of layer l (1-based): unit o of level l sees unit i of level l-1;  >= except on the last layer (>)
MaskAt(c, l) == LET a == RanksAt(c, l - 1)
                    b == RanksAt(c, l)
                IN [o \in DOMAIN b |-> {i \in DOMAIN a : IF l = NLayers(c) THEN b[o] > a[i] ELSE b[o] >= a[i]}]

\* ---- the machine ---------------------------------------------------------------------------------------------
Init == /\ cfg \in [dim : Dims, cond : Conds, width : Widths, depth : Depths, npar : NPars]
        /\ nl = 0
        /\ reach = [i \in 1..NIn(cfg) |-> {i}]          \* level 0: every input reaches itself
        /\ final = {}

Layer == /\ nl < NLayers(cfg)
         /\ LET m == MaskAt(cfg, nl + 1) IN
            reach' = [o \in DOMAIN m |-> UNION {reach[i] : i \in m[o]}]
         /\ nl' = nl + 1
         /\ UNCHANGED <<cfg, final>>

XInputs == 1..cfg.dim
CondInputs == (cfg.dim + 1)..NIn(cfg)
ParamsOf(r) == {o \in DOMAIN reach : (o - 1) \div cfg.npar = r - 1}       \* r: 1-based coordinate
\* one pass of inv_scan_fn fixes coordinate r: legitimate only if its parameters were computed from final values
Pass(r) == /\ nl = NLayers(cfg) /\ r = Cardinality(final) + 1 /\ r <= cfg.dim
           /\ \A o \in ParamsOf(r) : reach[o] \cap XInputs \subseteq final
           /\ final' = final \cup {r}
           /\ UNCHANGED <<cfg, nl, reach>>

Next == Layer \/ \E r \in 1..cfg.dim : Pass(r)
Spec == Init /\ [][Next]_vars
FairSpec == Spec /\ WF_vars(Next)

\* ---- P layer -------------------------------------------------------------------------------------------------
Composed == nl = NLayers(cfg)
\* "its transformer parameters [depend] only on inputs before i ... and freely on the condition"
Autoregressive == Composed => \A o \in DOMAIN reach : reach[o] \cap XInputs \subseteq {j \in XInputs : j - 1 < OutRanks(cfg)[o]}
\* the invariant that makes it inductive over depth: a unit of rank k reaches only inputs of rank <= k
RankBound == ~Composed => \A u \in DOMAIN reach : \A i \in reach[u] : InRanks(cfg)[i] <= RanksAt(cfg, nl)[u]
\* "when the hidden width is at least the dimension no permitted dependency is missing"
NothingMissing == Composed /\ cfg.width >= cfg.dim =>
                     \A o \in DOMAIN reach : reach[o] = {j \in XInputs : j - 1 < OutRanks(cfg)[o]} \cup CondInputs
\* the sequential inverse completes: after pass r exactly coordinates 1..r are final
InverseOrder == final = 1..Cardinality(final)
InverseCompletes == <>(final = XInputs)
\* a state with all layers composed in which some coordinate can never be passed would be a deadlock of the inverse
NoStuckInverse == Composed /\ final # XInputs => ENABLED Pass(Cardinality(final) + 1)

---------------------------------------------------------------------------
\* spec -> code
SetToSeq01(S, n) == [i \in 1..n |-> IF i \in S THEN 1 ELSE 0]
Case == [cfg |-> cfg, ranks |-> [l \in 1..(NLayers(cfg) + 1) |-> RanksAt(cfg, l - 1)],
         masks |-> [l \in 1..NLayers(cfg) |-> LET m == MaskAt(cfg, l) IN
                       [o \in DOMAIN m |-> SetToSeq01(m[o], Len(RanksAt(cfg, l - 1)))]],
         reach |-> [o \in DOMAIN reach |-> SetToSeq01(reach[o], NIn(cfg))]]
Emit == (EmitCases /\ Composed /\ final = {}) => PrintT("CASE " \o ToJson(Case))
=============================================================================
