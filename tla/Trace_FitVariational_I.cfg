SPECIFICATION Spec
CONSTANTS
  Layer = "I"
  Skip = {}
CONSTRAINT Reg
INVARIANT StepBound
POSTCONDITION Post
CHECK_DEADLOCK FALSE
