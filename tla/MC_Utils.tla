---- MODULE MC_Utils ----
EXTENDS Utils
SS == {None, <<>>, <<2>>, <<3>>, <<2, 3>>, <<1>>}
====
