--------------------------------- MODULE Rat ---------------------------------
(* Exact rationals <<n, d>>, d > 0, gcd-normalised.  TLC integers are 32-bit: callers keep denominators small. *)
EXTENDS Integers, Sequences
RECURSIVE Gcd(_, _)
Gcd(a, b) == IF b = 0 THEN a ELSE Gcd(b, a % b)
AbsI(x) == IF x < 0 THEN -x ELSE x
Q(n, d) == LET g == Gcd(AbsI(n), AbsI(d))
               s == IF d < 0 THEN -1 ELSE 1
           IN <<(s * n) \div g, (s * d) \div g>>
R(n) == <<n, 1>>
RAdd(p, q) == Q(p[1] * q[2] + q[1] * p[2], p[2] * q[2])
RSub(p, q) == Q(p[1] * q[2] - q[1] * p[2], p[2] * q[2])
RMul(p, q) == Q(p[1] * q[1], p[2] * q[2])
RDiv(p, q) == Q(p[1] * q[2], p[2] * q[1])
RLt(p, q) == p[1] * q[2] < q[1] * p[2]
RLe(p, q) == p[1] * q[2] <= q[1] * p[2]
RNeg(p) == <<0 - p[1], p[2]>>
RAbs(p) == <<AbsI(p[1]), p[2]>>
RSign(p) == IF p[1] > 0 THEN 1 ELSE IF p[1] < 0 THEN -1 ELSE 0
ROne == R(1)
RZero == R(0)
=============================================================================
