------------------------------- MODULE Rejection -------------------------------
(***************************************************************************)
(* The rejection loop of GaussianMixtureSimulator.sample_reference_posterior *)
(* (flowjax/tasks.py; growth beyond the listed properties, DESIGN 4.11).   *)
(* Every round draws N candidates, keeps those inside the prior support    *)
(* (an adversary decides how many, and they are all inside by the test     *)
(* prior.log_prob # -inf), and the loop ends as soon as at least N were    *)
(* kept; the first N are returned.                                         *)
(***************************************************************************)
EXTENDS Integers, Sequences, FiniteSets, TLC
CONSTANTS N, MaxRounds
VARIABLES kept, rounds, pc, ret
vars == <<kept, rounds, pc, ret>>
Init == kept = 0 /\ rounds = 0 /\ pc = "loop" /\ ret = -1
Round == /\ pc = "loop" /\ kept < N /\ rounds < MaxRounds
         /\ \E a \in 0..N : kept' = kept + a
         /\ rounds' = rounds + 1 /\ UNCHANGED <<pc, ret>>
Return == /\ pc = "loop" /\ kept >= N
          /\ ret' = N /\ pc' = "done" /\ UNCHANGED <<kept, rounds>>
Next == Round \/ Return
Spec == Init /\ [][Next]_vars
\* a round that keeps at least one candidate happens again and again (the posterior has mass inside the prior support)
FairSpec == Spec /\ WF_vars(Return) /\ SF_vars(\E a \in 1..N : pc = "loop" /\ kept < N /\ rounds < MaxRounds /\ kept' = kept + a /\ rounds' = rounds + 1 /\ UNCHANGED <<pc, ret>>)
ExactlyN == pc = "done" => ret = N /\ kept >= N
NeverShort == pc = "done" => kept >= ret
OvershootBounded == kept < 2 * N
=============================================================================
