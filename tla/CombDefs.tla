------------------------------- MODULE CombDefs -------------------------------
(* Pure definitions of Combinators.tla (arrays as C-order integer sequences, exact leaves, shapes by definition and  *)
(* as declared, the semantics Run, constructor validity), shared with Flows.tla.                                   *)
EXTENDS Integers, Sequences, FiniteSets, TLC
CONSTANT AsFound     \* BOOLEAN: declared-shape formulas as found at the pinned commit (Python slice semantics)

U == 1024
None == <<-1>>          \* "no condition shape"

\* ---- arrays ----------------------------------------------------------------------------------------------------
RECURSIVE Prod(_)
Prod(s) == IF s = <<>> THEN 1 ELSE s[1] * Prod(Tail(s))
Stride(s, a) == Prod(SubSeq(s, a + 1, Len(s)))                      \* a: 1-based axis
CoordAt(k, s, a) == (k \div Stride(s, a)) % s[a]                    \* k: 0-based flat position
Iota(n) == [k \in 1..n |-> k - 1]
\* flat positions (increasing = C order of the sub-array) whose coordinate on axis a lies in lo..hi-1
SelAxis(s, a, lo, hi) == SelectSeq(Iota(Prod(s)), LAMBDA k : lo <= CoordAt(k, s, a) /\ CoordAt(k, s, a) < hi)
Gather(x, sel) == [j \in 1..Len(sel) |-> x[sel[j] + 1]]
NormAxis(a, rank) == IF a < 0 THEN a + rank ELSE a                  \* 0-based, Python style
ReplaceAt(s, a, v) == [i \in 1..Len(s) |-> IF i = a THEN v ELSE s[i]]
RemoveAt(s, a) == SubSeq(s, 1, a - 1) \o SubSeq(s, a + 1, Len(s))
InsertAt(s, a, v) == SubSeq(s, 1, a - 1) \o <<v>> \o SubSeq(s, a, Len(s))    \* v becomes element a (1-based)
RECURSIVE SumSeq(_)
SumSeq(s) == IF s = <<>> THEN 0 ELSE s[1] + SumSeq(Tail(s))
RECURSIVE Pow2(_)
Pow2(n) == IF n = 0 THEN 1 ELSE 2 * Pow2(n - 1)

\* ---- leaves ------------------------------------------------------------------------------------------------------
AffE(id, k) == (id + k) % 3
AffB(id, k) == U * (5 * id + k + 1)
CW(id, k, m) == ((k + 2 * m + id) % 4) + 1
EmbW(m, r) == ((m + r) % 2) + 1
\* TriangularAffine: off-diagonal entries (i, j 0-based); the diagonal is 2^AffE, the bias AffB
TW(id, i, j) == ((id + 2 * i + 3 * j) % 5) - 2
InTri(q, i, j) == IF q.k = "tril" THEN j < i ELSE j > i

\* ---- shapes by definition ------------------------------------------------------------------------------------------
RECURSIVE SemShape(_), SemCond(_)
MergeCond(cs) == LET some == {c \in cs : c # None} IN IF some = {} THEN None ELSE CHOOSE c \in some : TRUE
PartialSelShape(idx, s) ==
  CASE idx.kind = "int" -> Tail(s)
    [] idx.kind = "slice" -> <<idx.hi - idx.lo>> \o Tail(s)
    [] idx.kind = "intarr" -> <<Len(idx.rows)>> \o Tail(s)
    [] idx.kind = "boolarr" -> <<Len(idx.rows)>> \o Tail(s)
    [] idx.kind = "sslice" -> <<Len(idx.rows)>> \o Tail(s)     \* a slice with a step: rows = range(lo, hi, step) in that order
    [] idx.kind = "tuple" -> SubSeq(s, 3, Len(s))
SemShape(q) ==
  CASE q.k \in {"aff", "cadd", "perm", "flip", "ident", "scan", "tril", "triu"} -> q.shape
    [] q.k = "chain" -> SemShape(q.parts[1])
    [] q.k = "invert" -> SemShape(q.p)
    [] q.k = "vmap" -> <<q.n>> \o SemShape(q.p)
    [] q.k = "concat" -> LET s1 == SemShape(q.parts[1])
                             a == NormAxis(q.axis, Len(s1)) + 1
                         IN ReplaceAt(s1, a, SumSeq([i \in 1..Len(q.parts) |-> SemShape(q.parts[i])[a]]))
    [] q.k = "stack" -> LET s1 == SemShape(q.parts[1])
                            a == NormAxis(q.axis, Len(s1) + 1) + 1         \* like jnp.stack: against rank + 1
                        IN InsertAt(s1, a, Len(q.parts))
    [] q.k = "partial" -> q.shape
    [] q.k = "reshape" -> q.shape
    [] q.k = "embed" -> SemShape(q.p)
SemCond(q) ==
  CASE q.k \in {"aff", "perm", "flip", "ident", "scan", "tril", "triu"} -> None
    [] q.k = "cadd" -> q.cs
    [] q.k = "chain" -> MergeCond({SemCond(q.parts[i]) : i \in 1..Len(q.parts)})
    [] q.k = "invert" -> SemCond(q.p)
    [] q.k = "vmap" -> LET c == SemCond(q.p) IN
                       IF c = None \/ q.cax = -9 THEN c
                       ELSE InsertAt(c, NormAxis(q.cax, Len(c) + 1) + 1, q.n)
    [] q.k \in {"concat", "stack"} -> MergeCond({SemCond(q.parts[i]) : i \in 1..Len(q.parts)})
    [] q.k = "partial" -> SemCond(q.p)
    [] q.k = "reshape" -> IF q.cs = None THEN SemCond(q.p) ELSE q.cs
    [] q.k = "embed" -> q.rawcs

\* ---- shapes as the constructors declare them ---------------------------------------------------------------------
PySliceTo(s, a) == IF a >= 0 THEN SubSeq(s, 1, IF a < Len(s) THEN a ELSE Len(s))
                   ELSE SubSeq(s, 1, IF Len(s) + a > 0 THEN Len(s) + a ELSE 0)
PySliceFrom(s, a) == IF a >= 0 THEN SubSeq(s, (IF a < Len(s) THEN a ELSE Len(s)) + 1, Len(s))
                     ELSE SubSeq(s, (IF Len(s) + a > 0 THEN Len(s) + a ELSE 0) + 1, Len(s))
RECURSIVE DeclShape(_), DeclCond(_)
DeclShape(q) ==
  CASE q.k = "stack" -> LET s1 == DeclShape(q.parts[1]) IN
                        IF AsFound THEN PySliceTo(s1, q.axis) \o <<Len(q.parts)>> \o PySliceFrom(s1, q.axis)
                        ELSE InsertAt(s1, NormAxis(q.axis, Len(s1) + 1) + 1, Len(q.parts))
    [] q.k = "vmap" -> <<q.n>> \o DeclShape(q.p)
    [] q.k = "chain" -> DeclShape(q.parts[1])
    [] q.k \in {"invert", "embed"} -> DeclShape(q.p)
    [] OTHER -> SemShape(q)
DeclCond(q) ==
  CASE q.k = "vmap" -> LET c == DeclCond(q.p) IN
                       IF c = None \/ q.cax = -9 THEN c
                       ELSE IF AsFound THEN PySliceTo(c, q.cax) \o <<q.n>> \o PySliceFrom(c, q.cax)
                       ELSE InsertAt(c, NormAxis(q.cax, Len(c) + 1) + 1, q.n)
    [] q.k = "invert" -> DeclCond(q.p)
    [] q.k = "partial" -> DeclCond(q.p)
    [] OTHER -> SemCond(q)

\* ---- semantics ---------------------------------------------------------------------------------------------------
\* selection of Partial: flat positions in the order of x[idxs]
PartialSel(idx, s) ==
  CASE idx.kind = "int" -> SelAxis(s, 1, NormAxis(idx.i, s[1]), NormAxis(idx.i, s[1]) + 1)
    [] idx.kind = "slice" -> SelAxis(s, 1, idx.lo, idx.hi)
    [] idx.kind \in {"intarr", "boolarr", "sslice"} ->
         LET blocks == [j \in 1..Len(idx.rows) |-> SelAxis(s, 1, idx.rows[j], idx.rows[j] + 1)]
             bl == Prod(Tail(s))
         IN [t \in 1..(Len(idx.rows) * bl) |-> blocks[((t - 1) \div bl) + 1][((t - 1) % bl) + 1]]
    [] idx.kind = "tuple" -> SelectSeq(Iota(Prod(s)), LAMBDA k : CoordAt(k, s, 1) = idx.i /\ CoordAt(k, s, 2) = idx.j)

\* triangular affine: y_i = 2^e_i x_i + sum over the triangle of T_ij x_j + b_i; the inverse by substitution, in the
\* order the triangle dictates (exact iff every division is: checked by applying the forward map to the result)
TriFwd(q, x) == [i \in 1..Len(x) |-> Pow2(AffE(q.id, i - 1)) * x[i] + AffB(q.id, i - 1)
                                      + SumSeq([j \in 1..Len(x) |-> IF InTri(q, i, j) THEN TW(q.id, i - 1, j - 1) * x[j] ELSE 0])]
RECURSIVE TriInv(_, _, _, _)
TriInv(q, y, xs, t) ==
  IF t = Len(y) THEN xs
  ELSE LET n == Len(y)
           i == IF q.k = "tril" THEN t + 1 ELSE n - t
           acc == SumSeq([j \in 1..n |-> IF InTri(q, i, j) THEN TW(q.id, i - 1, j - 1) * xs[j] ELSE 0])
       IN TriInv(q, y, [xs EXCEPT ![i] = (y[i] - AffB(q.id, i - 1) - acc) \div Pow2(AffE(q.id, i - 1))], t + 1)

RECURSIVE Run(_, _, _, _)
\* apply a list of parts to their selections of x and scatter the results back
Scatter(x, sels, outs) ==
  [k \in 1..Len(x) |->
     LET hit == {j \in 1..Len(sels) : \E t \in 1..Len(sels[j]) : sels[j][t] = k - 1}
     IN IF hit = {} THEN x[k]
        ELSE LET j == CHOOSE j \in hit : TRUE
                 t == CHOOSE t \in 1..Len(sels[j]) : sels[j][t] = k - 1
             IN outs[j][t]]
\* fold a sequence of parts sequentially (Chain, Scan): dir "f" in order, dir "i" reversed
RECURSIVE Seq_(_, _, _, _, _)
Seq_(parts, dir, x, c, i) ==
  IF i > Len(parts) THEN [v |-> x, ld |-> 0, ok |-> TRUE]
  ELSE LET q == IF dir = "f" THEN parts[i] ELSE parts[Len(parts) + 1 - i]
           r == Run(q, dir, x, c)
           rest == Seq_(parts, dir, r.v, c, i + 1)
       IN [v |-> rest.v, ld |-> r.ld + rest.ld, ok |-> r.ok /\ rest.ok]
CondFor(q, c) == c      \* every child receives the whole condition unless stated otherwise
Run(q, dir, x, c) ==
  LET n == Len(x) IN
  CASE q.k = "aff" ->
         IF dir = "f"
           THEN [v |-> TLCEval([k \in 1..n |-> Pow2(AffE(q.id, k - 1)) * x[k] + AffB(q.id, k - 1)]),
                 ld |-> SumSeq([k \in 1..n |-> AffE(q.id, k - 1)]), ok |-> TRUE]
           ELSE [v |-> TLCEval([k \in 1..n |-> (x[k] - AffB(q.id, k - 1)) \div Pow2(AffE(q.id, k - 1))]),
                 ld |-> 0 - SumSeq([k \in 1..n |-> AffE(q.id, k - 1)]),
                 ok |-> \A k \in 1..n : (x[k] - AffB(q.id, k - 1)) % Pow2(AffE(q.id, k - 1)) = 0]
    [] q.k \in {"tril", "triu"} ->
         LET e == SumSeq([k \in 1..n |-> AffE(q.id, k - 1)]) IN
         IF dir = "f" THEN [v |-> TLCEval(TriFwd(q, x)), ld |-> e, ok |-> TRUE]
         ELSE LET xs == TLCEval(TriInv(q, x, [k \in 1..n |-> 0], 0)) IN [v |-> xs, ld |-> 0 - e, ok |-> TriFwd(q, xs) = x]
    [] q.k = "cadd" ->
         LET add == [k \in 1..n |-> SumSeq([m \in 1..Len(c) |-> CW(q.id, k - 1, m - 1) * c[m]])] IN
         [v |-> TLCEval([k \in 1..n |-> IF dir = "f" THEN x[k] + add[k] ELSE x[k] - add[k]]), ld |-> 0, ok |-> TRUE]
    [] q.k = "perm" ->     \* Permute(permutation): y = x[permutation], permutation = rotation by one
         [v |-> TLCEval([k \in 1..n |-> IF dir = "f" THEN x[(k % n) + 1] ELSE x[((k + n - 2) % n) + 1]]), ld |-> 0, ok |-> TRUE]
    [] q.k = "flip" -> [v |-> TLCEval([k \in 1..n |-> x[n + 1 - k]]), ld |-> 0, ok |-> TRUE]
    [] q.k = "ident" -> [v |-> x, ld |-> 0, ok |-> TRUE]
    [] q.k = "scan" -> Seq_([i \in 1..Len(q.ids) |-> [k |-> "aff", id |-> q.ids[i], shape |-> q.shape]], dir, x, c, 1)
    [] q.k = "chain" -> Seq_(q.parts, dir, x, c, 1)
    [] q.k = "invert" -> Run(q.p, IF dir = "f" THEN "i" ELSE "f", x, c)
    [] q.k = "vmap" ->
         LET s == SemShape(q)
             cc == SemCond(q)
             ic == SemCond(q.p)
             sels == [i \in 1..q.n |-> SelAxis(s, 1, i - 1, i)]
             \* parameters mapped: slice i is transformed by its own leaf (id + 10*(i-1)); broadcast: the same leaf
             child(i) == IF q.mapped THEN [q.p EXCEPT !.id = q.p.id + 10 * (i - 1)] ELSE q.p
             condOf(i) == IF ic = None \/ q.cax = -9 THEN c
                          ELSE Gather(c, SelAxis(cc, NormAxis(q.cax, Len(ic) + 1) + 1, i - 1, i))
             rs == [i \in 1..q.n |-> Run(child(i), dir, Gather(x, sels[i]), condOf(i))]
         IN [v |-> TLCEval(Scatter(x, sels, [i \in 1..q.n |-> rs[i].v])),
             ld |-> SumSeq([i \in 1..q.n |-> rs[i].ld]), ok |-> \A i \in 1..q.n : rs[i].ok]
    [] q.k = "concat" ->
         LET s == SemShape(q)
             a == NormAxis(q.axis, Len(s)) + 1
             lens == [i \in 1..Len(q.parts) |-> SemShape(q.parts[i])[a]]
             off(i) == SumSeq(SubSeq(lens, 1, i - 1))
             sels == [i \in 1..Len(q.parts) |-> SelAxis(s, a, off(i), off(i) + lens[i])]
             rs == [i \in 1..Len(q.parts) |-> Run(q.parts[i], dir, Gather(x, sels[i]), c)]
         IN [v |-> TLCEval(Scatter(x, sels, [i \in 1..Len(q.parts) |-> rs[i].v])),
             ld |-> SumSeq([i \in 1..Len(q.parts) |-> rs[i].ld]), ok |-> \A i \in 1..Len(q.parts) : rs[i].ok]
    [] q.k = "stack" ->
         LET s == SemShape(q)
             a == NormAxis(q.axis, Len(s)) + 1
             sels == [i \in 1..Len(q.parts) |-> SelAxis(s, a, i - 1, i)]
             rs == [i \in 1..Len(q.parts) |-> Run(q.parts[i], dir, Gather(x, sels[i]), c)]
         IN [v |-> TLCEval(Scatter(x, sels, [i \in 1..Len(q.parts) |-> rs[i].v])),
             ld |-> SumSeq([i \in 1..Len(q.parts) |-> rs[i].ld]), ok |-> \A i \in 1..Len(q.parts) : rs[i].ok]
    [] q.k = "partial" ->
         LET sel == PartialSel(q.idx, q.shape)
             r == Run(q.p, dir, Gather(x, sel), c)
         IN [v |-> TLCEval(Scatter(x, <<sel>>, <<r.v>>)), ld |-> r.ld, ok |-> r.ok]
    [] q.k = "reshape" -> Run(q.p, dir, x, c)           \* C-order flat data: reshaping only re-presents
    [] q.k = "embed" ->
         LET m == Prod(SemCond(q.p))
             emb == [j \in 1..m |-> SumSeq([r \in 1..Len(c) |-> EmbW(j - 1, r - 1) * c[r]])]
         IN Run(q.p, dir, x, emb)

\* ---- constructor validity (the incompatibilities the constructors document) ------------------------------------
RECURSIVE Valid(_)
CondsAgree(ps) == Cardinality({SemCond(ps[i]) : i \in 1..Len(ps)} \ {None}) <= 1
Valid(q) ==
  CASE q.k \in {"aff", "cadd", "perm", "flip", "ident", "scan"} -> TRUE
    [] q.k \in {"tril", "triu"} -> Len(q.shape) = 1
    [] q.k = "chain" -> /\ \A i \in 1..Len(q.parts) : Valid(q.parts[i])
                        /\ \A i \in 1..Len(q.parts) : SemShape(q.parts[i]) = SemShape(q.parts[1])
                        /\ CondsAgree(q.parts)
    [] q.k = "invert" -> Valid(q.p)
    [] q.k = "vmap" -> Valid(q.p)
    [] q.k = "concat" -> /\ \A i \in 1..Len(q.parts) : Valid(q.parts[i])
                         /\ LET s1 == SemShape(q.parts[1]) IN
                            /\ Len(s1) >= 1 /\ -Len(s1) <= q.axis /\ q.axis < Len(s1)
                            /\ \A i \in 1..Len(q.parts) :
                                 /\ Len(SemShape(q.parts[i])) = Len(s1)
                                 /\ RemoveAt(SemShape(q.parts[i]), NormAxis(q.axis, Len(s1)) + 1) = RemoveAt(s1, NormAxis(q.axis, Len(s1)) + 1)
                         /\ CondsAgree(q.parts)
    [] q.k = "stack" -> /\ \A i \in 1..Len(q.parts) : Valid(q.parts[i])
                        /\ \A i \in 1..Len(q.parts) : SemShape(q.parts[i]) = SemShape(q.parts[1])
                        /\ CondsAgree(q.parts)
    [] q.k = "partial" -> Valid(q.p) /\ PartialSelShape(q.idx, q.shape) = SemShape(q.p)
    [] q.k = "reshape" -> /\ Valid(q.p) /\ Prod(q.shape) = Prod(SemShape(q.p))
                          /\ (q.cs # None => SemCond(q.p) # None /\ Prod(q.cs) = Prod(SemCond(q.p)))
    [] q.k = "embed" -> Valid(q.p) /\ SemCond(q.p) # None

\* ---- inputs --------------------------------------------------------------------------------------------------------
XOf(s) == [k \in 1..Prod(s) |-> U * (3 * k + 2)]
COf(cs) == IF cs = None THEN <<>> ELSE [m \in 1..Prod(cs) |-> U * (2 * m + 1)]

=============================================================================
