SPECIFICATION Spec
CONSTANTS
  Layer = "I"
  Skip = {}
CONSTRAINT Reg
INVARIANT NeverBad
POSTCONDITION Post
CHECK_DEADLOCK FALSE
