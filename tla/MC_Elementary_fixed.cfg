SPECIFICATION Spec
CONSTANTS
  SplineCfgs <- Splines
  AffCfgs <- Affs
  TriCfgs <- Tris
  PermSizes = {1, 2, 3, 4}
  LeakyCfgs <- Leakys
  Literal = FALSE
  EmitCases = TRUE
INVARIANT Interpolates
INVARIANT KnotDerivatives
INVARIANT IdentityOutside
INVARIANT Increasing
INVARIANT PositiveDerivative
INVARIANT SamePiece
INVARIANT LeakySwitch
CONSTRAINT Emit
CHECK_DEADLOCK FALSE
