SPECIFICATION Spec
CONSTANTS
  Layer = "I"
  Skip = {}
CONSTRAINT Reg
INVARIANT IterBound
POSTCONDITION Post
CHECK_DEADLOCK FALSE
