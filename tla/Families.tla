------------------------------- MODULE Families -------------------------------
(***************************************************************************)
(* The named parametric families (property C05): supports as exact         *)
(* interval algebra over rationals, independence over dimensions, and the  *)
(* broadcasting of parameters.  The textbook log-density of each family is *)
(* a term over primitive symbols (LOG, EXP, LGAMMA, PI ...) that the       *)
(* harness evaluates with NumPy / math in float64; this module decides,    *)
(* exactly, for every (family, parameter configuration, point) of the grid *)
(* which coordinates lie inside, on the edge of, or outside the support -- *)
(* so the expected value is -infinity exactly when a coordinate is outside *)
(* and a finite sum over coordinates otherwise -- and how scalar / vector  *)
(* parameters broadcast against each other.                                *)
(***************************************************************************)
EXTENDS Integers, Sequences, FiniteSets, TLC, Json, Rat
CONSTANTS FamilyNames, EmitCases
VARIABLES st

\* parameter vectors: a scalar is a length-1 sequence that broadcasts
Bc(p, i) == IF Len(p) = 1 THEN p[1] ELSE p[i]
Dim(ps) == LET lens == {Len(ps[k]) : k \in DOMAIN ps} IN IF \E n \in lens : n > 1 THEN CHOOSE n \in lens : n > 1 ELSE 1
Broadcastable(ps) == Cardinality({Len(ps[k]) : k \in DOMAIN ps} \ {1}) <= 1

\* support of coordinate i, as (lower, lower-closed?, upper, upper-closed?) with "inf" markers
Support(f, ps, i) ==
  CASE f \in {"Normal", "Gumbel", "Cauchy", "StudentT", "Laplace", "Logistic"} -> [haslo |-> FALSE, lo |-> RZero, hashi |-> FALSE, hi |-> RZero]
    [] f = "LogNormal" -> [haslo |-> TRUE, lo |-> RZero, hashi |-> FALSE, hi |-> RZero]
    [] f = "Exponential" -> [haslo |-> TRUE, lo |-> RZero, hashi |-> FALSE, hi |-> RZero]
    [] f = "Uniform" -> [haslo |-> TRUE, lo |-> Bc(ps[1], i), hashi |-> TRUE, hi |-> Bc(ps[2], i)]
Class(f, ps, i, x) ==
  LET s == Support(f, ps, i) IN
  IF s.haslo /\ x = s.lo THEN "edge"
  ELSE IF s.hashi /\ x = s.hi THEN "edge"
  ELSE IF (s.haslo /\ RLt(x, s.lo)) \/ (s.hashi /\ RLt(s.hi, x)) THEN "outside" ELSE "inside"

\* parameter configurations: sequences of parameter vectors, in constructor order
Locs == {<<RZero>>, <<Q(-3, 2)>>, <<Q(-3, 2), R(5), Q(1, 4)>>}
Scales == {<<ROne>>, <<Q(1, 4)>>, <<R(7), Q(1, 2), R(2)>>}
Dfs == {<<Q(1, 2)>>, <<R(3)>>, <<R(30), Q(5, 2), ROne>>, <<R(400000000)>>}     \* the last: deep in the normal limit
Params(f) ==
  CASE f \in {"Normal", "LogNormal", "Gumbel", "Cauchy", "Laplace", "Logistic"} -> {<<l, s>> : l \in Locs, s \in Scales}
    [] f = "StudentT" -> {<<d, l, s>> : d \in Dfs, l \in {<<RZero>>, <<Q(-3, 2), R(5), Q(1, 4)>>}, s \in {<<ROne>>, <<R(7), Q(1, 2), R(2)>>}}
    [] f = "Exponential" -> {<<s>> : s \in Scales}
    [] f = "Uniform" -> {<< <<RZero>>, <<ROne>> >>, << <<Q(-3, 2)>>, <<Q(1, 4)>> >>, << <<Q(-3, 2), RZero, R(2)>>, <<Q(1, 2), R(5), Q(9, 4)>> >>,
                         << <<RZero>>, <<Q(1, 2), R(5), Q(9, 4)>> >>}
\* evaluation points per coordinate: generic, negative, zero, the support edges, far out
Points(f, ps, i) == {Q(3, 10), Q(-7, 5), RZero, Q(1, 4), R(40), Q(-1, 1000), R(-40), R(10000), R(-10000)}
                    \cup (IF f = "Uniform" THEN {Bc(ps[1], i), Bc(ps[2], i), RDiv(RAdd(Bc(ps[1], i), Bc(ps[2], i)), R(2))} ELSE {})
PointVectors(f, ps) == LET n == Dim(ps) IN
   { [i \in 1..n |-> p] : p \in Points(f, ps, 1) } \cup
   (IF n > 1 THEN { [i \in 1..n |-> IF i = 2 THEN p ELSE Q(1, 10)] : p \in Points(f, ps, 2) } ELSE {})

Init == \E f \in FamilyNames : \E ps \in Params(f) : Broadcastable(ps) /\ \E x \in PointVectors(f, ps) : st = [f |-> f, ps |-> ps, x |-> x]
Next == UNCHANGED st
Spec == Init /\ [][Next]_st

Classes == [i \in 1..Len(st.x) |-> Class(st.f, st.ps, i, st.x[i])]
\* the documented shape is the broadcast of the parameter shapes
ShapeIsBroadcast == Len(st.x) = Dim(st.ps)
\* independence over dimensions: the value is finite iff no coordinate is outside (edges are a convention of the family)
Expect == IF \E i \in 1..Len(st.x) : Classes[i] = "outside" THEN "-inf"
          ELSE IF \E i \in 1..Len(st.x) : Classes[i] = "edge" THEN "edge" ELSE "finite"
UniformSupportOrdered == st.f = "Uniform" => \A i \in 1..Len(st.x) : RLt(Bc(st.ps[1], i), Bc(st.ps[2], i))
Emit == EmitCases => PrintT("CASE " \o ToJson([f |-> st.f, ps |-> st.ps, x |-> st.x, classes |-> Classes, expect |-> Expect]))
=============================================================================
