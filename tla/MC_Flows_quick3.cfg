SPECIFICATION Spec
CONSTANTS
  FlowShapes <- FsQuick
  MaxNest = 3
  AsFound = FALSE
  EmitCases = TRUE
INVARIANT InverseExact
INVARIANT PathsAgree
INVARIANT MergeTransformsSame
INVARIANT CondPropagates
CONSTRAINT Emit
VIEW View
CHECK_DEADLOCK FALSE
