--------------------------- MODULE Trace_FitToData ---------------------------
(***************************************************************************)
(* code -> spec: recorded executions of the real flowjax.train.fit_to_data *)
(* are validated against the FitToData state machine (DESIGN 3.1, 4.1).    *)
(*                                                                         *)
(* One ndjson line per execution:                                          *)
(*   cfg    {n, batch, nval, maxep, pat, rb}                               *)
(*   script val loss as a function of the update count (index theta+1)     *)
(*   ev     [{k:"loss", grad, rows, crows, key, theta} | {k:"update"}]     *)
(*   ret    {theta, ntl, nvl, val}                                         *)
(*                                                                         *)
(* The split is not logged: nT is chosen in Init and train / val hold the  *)
(* rows SEEN so far (lazy refinement of FitToData!Split: a lazy run extends *)
(* to an eager one iff the seen sets are disjoint and fit the              *)
(* cardinalities, which is what the guards demand).  Epoch boundaries are  *)
(* not logged either; they are inferred from the alternation               *)
(* train-calls+ val-calls+.                                                *)
(*                                                                         *)
(* Guards are tagged.  G(name, p) is a P-layer guard: it quotes C15 / C16. *)
(* GI(name, p) is an I-layer guard: it holds for the present code only and *)
(* is switched off with Layer = "P".  Skip names guards to ablate, which   *)
(* is how the harness names the failing clause of a rejected trace.        *)
(***************************************************************************)
EXTENDS Integers, Sequences, FiniteSets, TLC, Json, IOUtils, FitCommon

CONSTANTS Layer, Skip

Traces == ndJsonDeserialize(IOEnv.TRACE_FILE)

VARIABLES tid, l, nT, train, val, usedT, usedV, epoch, pass, params, keys, grad, valLoss, evalAt, best
vars == <<tid, l, nT, train, val, usedT, usedV, epoch, pass, params, keys, grad, valLoss, evalAt, best>>

G(name, p) == name \in Skip \/ p
GI(name, p) == Layer = "P" \/ name \in Skip \/ p

T == Traces[tid]
Cfg == T.cfg
Ev == T.ev
N == Cfg.n
BsT == MinOf2(Cfg.batch, nT)
BsV == MinOf2(Cfg.batch, N - nT)

Init ==
  /\ tid \in 1..Len(Traces) /\ l = 1
  /\ nT \in 1..(Traces[tid].cfg.n - 1)
  /\ G("SplitProportion", AbsInt((Traces[tid].cfg.n - nT) - Traces[tid].cfg.nval) <= 1)
  /\ GI("SplitExact", Traces[tid].cfg.n - nT = Traces[tid].cfg.nval)
  /\ train = {} /\ val = {} /\ usedT = {} /\ usedV = {} /\ epoch = 0 /\ pass = "idle" /\ params = 0
  /\ keys = {0} /\ grad = {} /\ valLoss = <<>> /\ evalAt = <<>> /\ best = 0

\* the validation pass of the current epoch is complete: its loss is recorded and the decision taken
ClosedLoss == Append(valLoss, T.script[params + 1])
ValPassComplete == G("OnlyRemainderSkippedVal", (N - nT) - Cardinality(usedV) < BsV)

TrainBatch ==
  /\ l + 1 <= Len(Ev) /\ Ev[l].k = "loss" /\ Ev[l].grad /\ Ev[l + 1].k = "update"
  /\ pass \in {"idle", "train", "val"}
  /\ LET e == Ev[l]
         B == SeqRange(e.rows)
     IN
     /\ G("Aligned", e.rows = e.crows)
     /\ G("AtMostOncePerEpoch", NoDupSeq(e.rows))
     /\ G("BatchNotLarger", Len(e.rows) <= Cfg.batch)
     /\ GI("BatchSizeExact", Len(e.rows) = BsT)
     /\ G("FreshKey", e.key \notin keys)
     /\ GI("LossSeesCurrentParams", e.theta = params)
     /\ G("Partition", B \cap val = {})
     /\ \/ /\ pass = "train"
           /\ G("AtMostOncePerEpoch", B \cap usedT = {})
           /\ usedT' = usedT \cup B
           /\ UNCHANGED <<usedV, epoch, valLoss, evalAt, best>>
        \/ /\ pass \in {"idle", "val"}          \* a new epoch starts
           /\ G("MaxEpochs", epoch < Cfg.maxep)
           /\ IF pass = "val"
                THEN /\ ValPassComplete
                     /\ G("StopsWhenPatienceExceeded", ~DecideStop(ClosedLoss, Cfg.pat))
                     /\ valLoss' = ClosedLoss
                     /\ evalAt' = Append(evalAt, params)
                     /\ best' = DecideBest(ClosedLoss, params, best)
                ELSE UNCHANGED <<valLoss, evalAt, best>>
           /\ usedT' = B /\ usedV' = {} /\ epoch' = epoch + 1
     /\ train' = train \cup B
     /\ G("Partition", Cardinality(train') <= nT)
     /\ grad' = grad \cup B
     /\ keys' = keys \cup {e.key}
     /\ params' = params + 1 /\ pass' = "train"
  /\ l' = l + 2 /\ UNCHANGED <<tid, nT, val>>

ValBatch ==
  /\ l <= Len(Ev) /\ Ev[l].k = "loss" /\ ~Ev[l].grad
  /\ (l + 1 <= Len(Ev) => Ev[l + 1].k # "update")
  /\ pass \in {"train", "val"}
  /\ LET e == Ev[l]
         B == SeqRange(e.rows)
     IN
     /\ G("Aligned", e.rows = e.crows)
     /\ G("AtMostOncePerEpoch", NoDupSeq(e.rows))
     /\ GI("BatchSizeExact", Len(e.rows) = BsV)
     /\ G("FreshKey", e.key \notin keys)
     /\ GI("LossSeesCurrentParams", e.theta = params)
     /\ G("Partition", B \cap train = {})
     /\ (pass = "train" => G("OnlyRemainderSkipped", nT - Cardinality(usedT) < BsT))
     /\ (pass = "val" => G("AtMostOncePerEpoch", B \cap usedV = {}))
     /\ usedV' = (IF pass = "train" THEN B ELSE usedV \cup B)
     /\ val' = val \cup B
     /\ G("Partition", Cardinality(val') <= N - nT)
     /\ keys' = keys \cup {e.key}
  /\ pass' = "val" /\ l' = l + 1
  /\ UNCHANGED <<tid, nT, train, usedT, epoch, params, grad, valLoss, evalAt, best>>

\* a validation-looking call followed by an update, or a differentiated call without one: no action matches, and the
\* invariants below say why.  (grad \cap val = {} is an INVARIANT of the cfg: evaluated in every state.)

Return ==
  /\ l = Len(Ev) + 1 /\ pass \in {"val", "idle"}
  /\ LET v == IF pass = "val" THEN ClosedLoss ELSE valLoss
         ea == IF pass = "val" THEN Append(evalAt, params) ELSE evalAt
         b == IF pass = "val" THEN DecideBest(v, params, best) ELSE best
         early == pass = "val" /\ DecideStop(v, Cfg.pat)
     IN
     /\ (pass = "val" => ValPassComplete)
     /\ G("OneLossPerEpoch", Len(v) = T.ret.nvl /\ T.ret.ntl = Len(v) /\ Len(v) = epoch)
     /\ G("RecordedLosses", v = T.ret.val)
     /\ G("NeverEarly", early \/ epoch = Cfg.maxep)
     /\ (Cfg.rb /\ v # <<>> =>
            G("ReturnsArgmin", \E k \in DOMAIN v : v[k] = MinOfSet(SeqRange(v)) /\ T.ret.theta = ea[k]))
     /\ (Cfg.rb => GI("ReturnsLatestArgmin", T.ret.theta = b))
     /\ (~Cfg.rb \/ v = <<>> => G("ReturnsLast", T.ret.theta = params))
     /\ valLoss' = v /\ evalAt' = ea /\ best' = b
  /\ l' = l + 1 /\ pass' = "done"
  /\ UNCHANGED <<tid, nT, train, val, usedT, usedV, epoch, params, keys, grad>>

Next == TrainBatch \/ ValBatch \/ Return
Spec == Init /\ [][Next]_vars

\* P invariants, evaluated at every step of every recorded execution
NoValidationGradient == "NoValidationGradient" \in Skip \/ grad \cap val = {}
Disjoint == "Partition" \in Skip \/ train \cap val = {}
EpochBound == "MaxEpochs" \in Skip \/ epoch <= Cfg.maxep

\* acceptance: a trace is accepted iff some branch consumes every event and the return record
Reg == TLCSet(tid, IF TLCGet(tid) < l THEN l ELSE TLCGet(tid))
Post == \A t \in 1..Len(Traces) : PrintT(<<"TRACE", t, TLCGet(t), Len(Traces[t].ev) + 2>>)
ASSUME \A t \in 1..Len(Traces) : TLCSet(t, 0)
=============================================================================
