SPECIFICATION Spec
CONSTANTS
  ShapeSet <- SS
  MaxLen = 3
  EmitCases = TRUE
INVARIANT MergeIsIdempotent
CONSTRAINT Emit
CHECK_DEADLOCK FALSE
