----------------------------- MODULE Trace_Losses -----------------------------
(* code -> spec (C17, contrastive loss).  The user supplies both the distribution and the prior, so a tagged       *)
(* conditional distribution records, for every evaluation log q(x | condition), the pair (tag of x, tag of the      *)
(* condition).  Host callbacks under vmap arrive in no particular order, so the records are self-describing and the *)
(* harness sorts them by (condition tag, x tag) before validation.                                                 *)
(*   cfg {b, n}     ev [{c, x}]  sorted                                                                             *)
(* For every row c the x-tags evaluated under its condition must be: c itself exactly once (the positive), and      *)
(* exactly n DISTINCT other rows of the batch.                                                                       *)
EXTENDS Integers, Sequences, FiniteSets, TLC, Json, IOUtils
CONSTANTS Layer, Skip
Traces == ndJsonDeserialize(IOEnv.TRACE_FILE)
VARIABLES tid, l, cur, others, selfcount, done
vars == <<tid, l, cur, others, selfcount, done>>
G(name, p) == name \in Skip \/ p
GI(name, p) == Layer = "P" \/ name \in Skip \/ p
T == Traces[tid]
Ev == T.ev
Rows == 0..(T.cfg.b - 1)

Init == tid \in 1..Len(Traces) /\ l = 1 /\ cur = -1 /\ others = {} /\ selfcount = 0 /\ done = {}

GroupComplete == /\ G("ExactlyN", Cardinality(others) = T.cfg.n)
                 /\ G("PositiveOnce", selfcount = 1)
Pair ==
  /\ l <= Len(Ev)
  /\ LET e == Ev[l] IN
     /\ G("RowsOfTheBatch", e.x \in Rows /\ e.c \in Rows)
     /\ IF e.c = cur
          THEN /\ IF e.x = e.c
                    THEN /\ G("NeverItself", selfcount = 0)         \* a second (c, c) pair: the row was used as its own contrast
                         /\ selfcount' = selfcount + 1 /\ UNCHANGED others
                    ELSE /\ G("Distinct", e.x \notin others)
                         /\ others' = others \cup {e.x} /\ UNCHANGED selfcount
               /\ UNCHANGED <<cur, done>>
          ELSE /\ (cur # -1 => GroupComplete)
               /\ G("EveryRowOnce", e.c \notin done)
               /\ cur' = e.c /\ done' = (IF cur = -1 THEN done ELSE done \cup {cur})
               /\ IF e.x = e.c THEN selfcount' = 1 /\ others' = {} ELSE selfcount' = 0 /\ others' = {e.x}
  /\ l' = l + 1 /\ UNCHANGED tid
Finish ==
  /\ l = Len(Ev) + 1
  /\ (cur # -1 => GroupComplete)
  /\ G("EveryRowOnce", (done \cup (IF cur = -1 THEN {} ELSE {cur})) = Rows)
  /\ G("ValueIsCrossEntropy", T.ret.value_matches)
  /\ G("NonNegative", T.ret.nonneg)
  /\ l' = l + 1 /\ UNCHANGED <<tid, cur, others, selfcount, done>>
Next == Pair \/ Finish
Spec == Init /\ [][Next]_vars
AtMostN == "ExactlyN" \in Skip \/ Cardinality(others) <= T.cfg.n
Reg == TLCSet(tid, IF TLCGet(tid) < l THEN l ELSE TLCGet(tid))
Post == \A t \in 1..Len(Traces) : PrintT(<<"TRACE", t, TLCGet(t), Len(Traces[t].ev) + 2>>)
ASSUME \A t \in 1..Len(Traces) : TLCSet(t, 0)
=============================================================================
