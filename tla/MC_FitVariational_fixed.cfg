SPECIFICATION Spec
CONSTANTS
  L = 5
  MaxSteps = 5
  Ties = FALSE
  BestRule = "pre"
  EmitCases = FALSE
INVARIANT ExactlySteps
INVARIANT OneLossPerStep
INVARIANT ReturnsArgmin
INVARIANT ReturnsLast
INVARIANT ReturnsInitialIfNoStep
INVARIANT FreshKeys
CONSTRAINT Emit
CHECK_DEADLOCK FALSE
