---- MODULE MC_Flows ----
EXTENDS Flows
FsQuick == {<<2>>, <<3>>}
FsFull == {<<2>>, <<3>>, <<2, 2>>}
====
