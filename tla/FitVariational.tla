---------------------------- MODULE FitVariational ----------------------------
(***************************************************************************)
(* flowjax.train.fit_to_variational_target as a state machine (DESIGN 4.2). *)
(* `step` returns the loss of the parameters it was GIVEN and the updated  *)
(* parameters.  evalAt remembers at which parameters each recorded loss    *)
(* was evaluated; C16 demands that return_best returns those.              *)
(*                                                                         *)
(* BestRule = "pre"  : best_params := the parameters the minimum loss was  *)
(*                     evaluated at (the repaired code, fix: commit)       *)
(* BestRule = "post" : best_params := the parameters after the update      *)
(*                     (the code as found at the pinned commit); TLC       *)
(*                     refutes ReturnsArgmin with the 2-step history <<1,2>> *)
(***************************************************************************)
EXTENDS Integers, Sequences, FiniteSets, TLC, Json, FitCommon

CONSTANTS L, MaxSteps, Ties, BestRule, EmitCases

VARIABLES cfg, pc, step, params, losses, evalAt, best, keyLog, ret
vars == <<cfg, pc, step, params, losses, evalAt, best, keyLog, ret>>

Init ==
  /\ cfg \in [steps : 0..MaxSteps, returnBest : BOOLEAN]
  /\ pc = "loop" /\ step = 0 /\ params = 0 /\ losses = <<>> /\ evalAt = <<>> /\ best = 0 /\ keyLog = <<>> /\ ret = -1

Step ==
  /\ pc = "loop" /\ step < cfg.steps
  /\ \E l \in 1..L :
       /\ (Ties \/ l \notin SeqRange(losses))
       /\ losses' = Append(losses, l)
       /\ best' = IF l = MinOfSet(SeqRange(losses) \cup {l})
                    THEN (IF BestRule = "pre" THEN params ELSE params + 1)
                    ELSE best
  /\ evalAt' = Append(evalAt, params)
  /\ params' = params + 1 /\ step' = step + 1
  /\ keyLog' = Append(keyLog, step + 1)          \* key i of jr.split(key, steps)
  /\ UNCHANGED <<cfg, pc, ret>>

Return ==
  /\ pc = "loop" /\ step = cfg.steps
  /\ ret' = IF cfg.returnBest THEN best ELSE params
  /\ pc' = "done"
  /\ UNCHANGED <<cfg, step, params, losses, evalAt, best, keyLog>>

Next == Step \/ Return
Spec == Init /\ [][Next]_vars
FairSpec == Spec /\ WF_vars(Next)

---------------------------------------------------------------------------
\* P layer (C16, second sentence)
ExactlySteps == pc = "done" => step = cfg.steps /\ params = cfg.steps
OneLossPerStep == Len(losses) = step
ReturnsArgmin ==
  pc = "done" /\ cfg.returnBest /\ losses # <<>> =>
     \E k \in DOMAIN losses : losses[k] = MinOfSet(SeqRange(losses)) /\ ret = evalAt[k]
ReturnsLast == pc = "done" /\ ~cfg.returnBest => ret = cfg.steps
ReturnsInitialIfNoStep == pc = "done" /\ losses = <<>> => ret = 0
FreshKeys == NoDupSeq(keyLog) /\ 0 \notin SeqRange(keyLog)
Terminates == <>(pc = "done")

Case == [cfg |-> cfg, losses |-> losses, ret |-> ret]
Emit == (EmitCases /\ pc = "done") => PrintT("CASE " \o ToJson(Case))
=============================================================================
