------------------------------ MODULE FitToData ------------------------------
(***************************************************************************)
(* flowjax.train.fit_to_data as a state machine (DESIGN 4.1).              *)
(*                                                                         *)
(* I layer: one action per critical step of the loop in                    *)
(*   flowjax/train/data_fit.py  (split, per-epoch shuffle, train batches,  *)
(*   validation batches, the best/patience decision, return).              *)
(* P layer: the invariants below, each of which quotes a clause of         *)
(*   property C15 or C16.                                                  *)
(*                                                                         *)
(* The per-epoch shuffle is the nondeterministic choice of the batch B in  *)
(* TrainBatch / ValBatch.  The validation loss of an epoch is chosen by an *)
(* adversary when the epoch ends (EndVal), so one TLC run visits every     *)
(* loss history: all orderings of distinct values 1..L, and with           *)
(* Ties = TRUE all sequences over 1..L.                                    *)
(***************************************************************************)
EXTENDS Integers, Sequences, FiniteSets, TLC, Json, FitCommon

CONSTANTS
  Rows,       \* the data rows (identities only; a symmetry set)
  L,          \* loss values are 1..L (L bounds the number of epochs worth distinguishing)
  Batches,    \* set of batch sizes explored
  NVals,      \* set of validation-set sizes explored ( = round(val_prop * n) in the code )
  MaxEp,      \* max_epochs ranges over 0..MaxEp
  MaxPat,     \* max_patience ranges over 0..MaxPat
  Ties,       \* BOOLEAN: may two epochs have the same validation loss?
  EmitCases   \* BOOLEAN: print one CASE line per terminal state (spec -> code replay)

N == Cardinality(Rows)

VARIABLES
  cfg,        \* [batch, nval, maxEpochs, patience, returnBest]  -- arguments of the call
  pc,         \* "split" | "loop" | "train" | "val" | "decide" | "done"
  train, val, \* the two parts of the data set
  epoch,      \* epochs started
  usedT, usedV,   \* rows consumed in the current pass
  useCnt,     \* row -> number of times it was handed to the loss in the current epoch (history, for P)
  params,     \* number of optimiser updates applied  (the "counting optimiser" view of the parameters)
  best,       \* update count of best_params
  valLoss,    \* sequence of validation losses recorded so far
  trainLossN, \* number of training losses recorded so far
  keyLog,     \* sequence of key ids handed to the loss (0 is the caller's key)
  grad,       \* rows that ever took part in a gradient step
  ret         \* update count of the returned parameters, -1 before return

vars == <<cfg, pc, train, val, epoch, usedT, usedV, useCnt, params, best, valLoss, trainLossN, keyLog, grad, ret>>

---------------------------------------------------------------------------
\* (ArgMinFirst, Fruitless, DecideBest, DecideStop: module FitCommon, shared with the trace specifications)

BsT == MinOf2(cfg.batch, Cardinality(train))
BsV == MinOf2(cfg.batch, Cardinality(val))

---------------------------------------------------------------------------
Init ==
  /\ cfg \in [batch : Batches, nval : NVals, maxEpochs : 0..MaxEp, patience : 0..MaxPat, returnBest : BOOLEAN]
  /\ pc = "split" /\ train = {} /\ val = {} /\ epoch = 0 /\ usedT = {} /\ usedV = {}
  /\ useCnt = [r \in Rows |-> 0]
  /\ params = 0 /\ best = 0 /\ valLoss = <<>> /\ trainLossN = 0 /\ keyLog = <<>> /\ grad = {} /\ ret = -1

\* train_val_split: one permutation for every array, sliced at n_train
Split ==
  /\ pc = "split"
  /\ \E T \in SUBSET Rows :
       /\ Cardinality(T) = N - cfg.nval
       /\ train' = T /\ val' = Rows \ T
  /\ pc' = "loop"
  /\ UNCHANGED <<cfg, epoch, usedT, usedV, useCnt, params, best, valLoss, trainLossN, keyLog, grad, ret>>

BeginEpoch ==
  /\ pc = "loop" /\ epoch < cfg.maxEpochs
  /\ epoch' = epoch + 1 /\ usedT' = {} /\ usedV' = {} /\ useCnt' = [r \in Rows |-> 0]
  /\ pc' = "train"
  /\ UNCHANGED <<cfg, train, val, params, best, valLoss, trainLossN, keyLog, grad, ret>>

FreshKey == Len(keyLog) + 1        \* I: a split-off key never seen before

TrainBatch ==
  /\ pc = "train" /\ Cardinality(train \ usedT) >= BsT
  /\ \E B \in SUBSET (train \ usedT) :
       /\ Cardinality(B) = BsT
       /\ usedT' = usedT \cup B
       /\ useCnt' = [r \in Rows |-> IF r \in B THEN useCnt[r] + 1 ELSE useCnt[r]]
       /\ grad' = grad \cup B
  /\ params' = params + 1
  /\ keyLog' = Append(keyLog, FreshKey)
  /\ UNCHANGED <<cfg, pc, train, val, epoch, usedV, best, valLoss, trainLossN, ret>>

EndTrain ==
  /\ pc = "train" /\ Cardinality(train \ usedT) < BsT
  /\ trainLossN' = trainLossN + 1 /\ pc' = "val"
  /\ UNCHANGED <<cfg, train, val, epoch, usedT, usedV, useCnt, params, best, valLoss, keyLog, grad, ret>>

ValBatch ==
  /\ pc = "val" /\ Cardinality(val \ usedV) >= BsV
  /\ \E B \in SUBSET (val \ usedV) :
       /\ Cardinality(B) = BsV
       /\ usedV' = usedV \cup B
       /\ useCnt' = [r \in Rows |-> IF r \in B THEN useCnt[r] + 1 ELSE useCnt[r]]
  /\ keyLog' = Append(keyLog, FreshKey)
  /\ UNCHANGED <<cfg, pc, train, val, epoch, usedT, params, best, valLoss, trainLossN, grad, ret>>

EndVal ==
  /\ pc = "val" /\ Cardinality(val \ usedV) < BsV
  /\ \E l \in 1..L :
       /\ (Ties \/ l \notin SeqRange(valLoss))
       /\ valLoss' = Append(valLoss, l)
  /\ pc' = "decide"
  /\ UNCHANGED <<cfg, train, val, epoch, usedT, usedV, useCnt, params, best, trainLossN, keyLog, grad, ret>>

Decide ==
  /\ pc = "decide"
  /\ best' = DecideBest(valLoss, params, best)
  /\ pc' = IF DecideStop(valLoss, cfg.patience) THEN "ret" ELSE "loop"
  /\ UNCHANGED <<cfg, train, val, epoch, usedT, usedV, useCnt, params, valLoss, trainLossN, keyLog, grad, ret>>

Exhaust ==
  /\ pc = "loop" /\ epoch = cfg.maxEpochs /\ pc' = "ret"
  /\ UNCHANGED <<cfg, train, val, epoch, usedT, usedV, useCnt, params, best, valLoss, trainLossN, keyLog, grad, ret>>

Return ==
  /\ pc = "ret" /\ pc' = "done"
  /\ ret' = IF cfg.returnBest THEN best ELSE params
  /\ UNCHANGED <<cfg, train, val, epoch, usedT, usedV, useCnt, params, best, valLoss, trainLossN, keyLog, grad>>

Next == Split \/ BeginEpoch \/ TrainBatch \/ EndTrain \/ ValBatch \/ EndVal \/ Decide \/ Exhaust \/ Return

Spec == Init /\ [][Next]_vars
FairSpec == Spec /\ WF_vars(Next)

---------------------------------------------------------------------------
\* P layer: the clauses of C15 and C16

TypeOK ==
  /\ pc \in {"split", "loop", "train", "val", "decide", "ret", "done"}
  /\ train \subseteq Rows /\ val \subseteq Rows /\ usedT \subseteq train /\ usedV \subseteq val
  /\ params >= 0 /\ best >= 0 /\ best <= params

\* C15 "the training and validation sets partition the dataset" (both non-empty)
Partition == pc # "split" => /\ train \cup val = Rows /\ train \cap val = {}
                             /\ train # {} /\ val # {} /\ Cardinality(val) = cfg.nval

\* C15 "within an epoch each training row is used at most once"
AtMostOncePerEpoch == \A r \in Rows : useCnt[r] <= 1

\* C15 "only a trailing remainder smaller than one batch is skipped"
OnlyRemainderSkipped ==
  /\ pc \in {"val", "decide"} => Cardinality(train \ usedT) < BsT
  /\ pc = "decide" => Cardinality(val \ usedV) < BsV

\* C15 "validation rows never take part in a gradient step"
NoValidationGradient == grad \cap val = {}

\* C15 "every batch gets a fresh key" (and never the caller's own key, id 0)
FreshKeys == /\ \A i, j \in DOMAIN keyLog : keyLog[i] = keyLog[j] => i = j
             /\ 0 \notin SeqRange(keyLog)

\* C16 "at most max_epochs epochs", "one train and one validation loss per epoch run"
OneLossPerEpoch ==
  /\ epoch <= cfg.maxEpochs
  /\ pc \in {"loop", "ret", "done"} => Len(valLoss) = epoch /\ trainLossN = epoch

\* C16 "stops at the first epoch at which more than max_patience epochs have passed since the best validation
\*      loss and never earlier"
StopsAtFirst ==
  pc \in {"ret", "done"} /\ epoch < cfg.maxEpochs =>
     /\ Fruitless(valLoss) > cfg.patience
     /\ \A k \in 1..(Len(valLoss) - 1) : Fruitless(SubSeq(valLoss, 1, k)) <= cfg.patience
NeverEarly == pc = "loop" /\ valLoss # <<>> => Fruitless(valLoss) <= cfg.patience

\* C16 "returns the parameters that achieved the minimum validation loss when return_best is set and the last
\*      parameters otherwise".  The k-th validation loss is evaluated with the parameters after UpdatesTo(k).
\*  With ties any parameters achieving the minimum satisfy the property.
UpdatesPerEpoch == Cardinality(train) \div BsT
ReturnsArgmin ==
  pc = "done" /\ cfg.returnBest /\ valLoss # <<>> =>
     \E k \in DOMAIN valLoss : valLoss[k] = MinOfSet(SeqRange(valLoss)) /\ ret = k * UpdatesPerEpoch
ReturnsLast == pc = "done" /\ ~cfg.returnBest => ret = params /\ params = epoch * UpdatesPerEpoch
ReturnsInitialIfNoEpoch == pc = "done" /\ valLoss = <<>> => ret = 0

\* liveness: the loop terminates (checked under FairSpec without a state constraint)
Terminates == <>(pc = "done")

---------------------------------------------------------------------------
\* spec -> code: one CASE per terminal state
Case == [cfg |-> cfg, n |-> N, val |-> valLoss, epochs |-> epoch, ret |-> ret, params |-> params,
         ntrain |-> trainLossN, upe |-> UpdatesPerEpoch]
Emit == (EmitCases /\ pc = "done") => PrintT("CASE " \o ToJson(Case))

\* observation/history variables do not influence enabledness
View == <<cfg, pc, train, val, epoch, usedT, usedV, params, best, valLoss, ret>>
=============================================================================
