------------------------------ MODULE FitCommon ------------------------------
(* Definitions shared by FitToData, FitVariational and their trace specifications: *)
(* the loss-history arithmetic of flowjax/train (count_fruitless, the running-min test). *)
EXTENDS Integers, Sequences, FiniteSets

SeqRange(s) == {s[i] : i \in DOMAIN s}
MinOfSet(S) == CHOOSE x \in S : \A y \in S : x <= y
MinOf2(a, b) == IF a < b THEN a ELSE b
\* index of the FIRST minimum: jnp.argmin in count_fruitless
ArgMinFirst(s) == CHOOSE i \in DOMAIN s : s[i] = MinOfSet(SeqRange(s)) /\ \A j \in DOMAIN s : s[j] = s[i] => i <= j
\* epochs since the best validation loss
Fruitless(s) == Len(s) - ArgMinFirst(s)
IsRunningMin(s) == s[Len(s)] = MinOfSet(SeqRange(s))

\* The decision taken at the end of an epoch, as written in data_fit.py:
\*   if last == min(losses): best = params     elif count_fruitless(losses) > max_patience: break
DecideBest(v, p, b) == IF IsRunningMin(v) THEN p ELSE b
DecideStop(v, patience) == ~IsRunningMin(v) /\ Fruitless(v) > patience

NoDupSeq(s) == \A i, j \in DOMAIN s : s[i] = s[j] => i = j
AbsInt(x) == IF x < 0 THEN -x ELSE x
=============================================================================
