------------------------------ MODULE Batching ------------------------------
(* The two public data helpers of flowjax.train.train_utils, as arithmetic (C15).                      *)
(*   get_batches(arrays, batch_size): effective batch size min(batch_size, n); n div bs full batches;   *)
(*     batch i holds rows i*bs .. (i+1)*bs - 1 of the array IN ORDER; a trailing remainder < bs dropped. *)
(*   train_val_split(key, arrays, val_prop): one permutation for all arrays, cut at n - nval.           *)
(* TLC enumerates every (n, batch) of the grid, checks the design theorems below and prints one CASE   *)
(* per state; the harness replays each against the real helpers with index-tagged rows.               *)
EXTENDS Integers, Sequences, FiniteSets, TLC, Json
CONSTANTS MaxN, MaxB
VARIABLES n, b
MinOf2(x, y) == IF x < y THEN x ELSE y
Bs == MinOf2(b, n)
NB == n \div Bs
Batch(i) == [j \in 1..Bs |-> (i - 1) * Bs + j - 1]          \* 0-based row indices of batch i (1-based)
Used == UNION {{Batch(i)[j] : j \in 1..Bs} : i \in 1..NB}
Init == n \in 1..MaxN /\ b \in 1..MaxB
Next == UNCHANGED <<n, b>>
Spec == Init /\ [][Next]_<<n, b>>
\* design theorems (C15: "each row used at most once", "only a trailing remainder smaller than one batch is skipped")
NoRowTwice == \A i, k \in 1..NB : i # k => {Batch(i)[j] : j \in 1..Bs} \cap {Batch(k)[j] : j \in 1..Bs} = {}
OnlyTrailingRemainder == /\ Used = 0..(NB * Bs - 1)
                         /\ n - Cardinality(Used) < Bs
                         /\ NB >= 1
Emit == PrintT("CASE " \o ToJson([n |-> n, b |-> b, bs |-> Bs, nb |-> NB, batches |-> [i \in 1..NB |-> Batch(i)]]))
=============================================================================
