SPECIFICATION FairSpec
CONSTANTS
  L = 4
  MaxSteps = 4
  Ties = TRUE
  BestRule = "pre"
  EmitCases = FALSE
PROPERTY Terminates
CHECK_DEADLOCK FALSE
