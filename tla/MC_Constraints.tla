---- MODULE MC_Constraints ----
EXTENDS Constraints
IntsDef == {-5, -3, -1, 0, 1, 2, 4}
GsDef == {<<1, 8>>, <<1, 4>>, <<1, 1>>, <<7, 2>>}
SlopesDef == {<<0, 1>>, <<1, 4>>, <<1, 1>>, <<2, 1>>, <<4, 1>>}
ExpsDef == {0, -3}
AdjsDef == {<<0, 1>>, <<1, 10>>, <<1, 1>>}
SoftsDef == {0, 1, 4}
IntervalsDef == {<<-1, 1>>, <<-2, 3>>, <<1, 4>>}
FloorsDef == {<<1, 1024>>, <<1, 16>>, <<1, 2>>}   \* below 1: the flows initialise the scale at 1
====
