-------------------------------- MODULE Losses --------------------------------
(***************************************************************************)
(* Index / key discipline of flowjax.train.losses (DESIGN 4.10, C17).      *)
(*                                                                         *)
(* Contrastive loss: for every row i of a batch of B rows a set of         *)
(* n_contrastive rows is chosen; C17 demands "exactly n_contrastive        *)
(* distinct other rows of the batch".  The machine chooses the sets row by *)
(* row (ChooseRow: choice without replacement among the other rows, as     *)
(* _get_contrastive_idxs does with jr.choice(replace=False) on the array   *)
(* with row i deleted) and the invariants are the clauses.  Recorded       *)
(* (x-tag, condition-tag) pairs of the real loss are validated by          *)
(* Trace_Losses.                                                           *)
(*                                                                         *)
(* ELBO: both estimators (plain / stick-the-landing) draw their samples    *)
(* from the key they are given, so they see the same samples.              *)
(***************************************************************************)
EXTENDS Integers, Sequences, FiniteSets, TLC
CONSTANTS MaxB
VARIABLES cfg, chosen, elbo
vars == <<cfg, chosen, elbo>>

Rows == 1..cfg.b
Init == /\ cfg \in {c \in [b : 2..MaxB, n : 1..(MaxB - 1)] : c.n < c.b}
        /\ chosen = <<>>
        /\ elbo = [plain |-> 0, stl |-> 0]
ChooseRow == /\ Len(chosen) < cfg.b
             /\ LET i == Len(chosen) + 1 IN
                \E S \in SUBSET (Rows \ {i}) : Cardinality(S) = cfg.n /\ chosen' = Append(chosen, S)
             /\ UNCHANGED <<cfg, elbo>>
\* an estimator draws its samples as a function of the key only: Samples(key) is the identity here
Estimate(which, key) == /\ Len(chosen) = cfg.b /\ elbo[which] = 0
                        /\ elbo' = [elbo EXCEPT ![which] = key]
                        /\ UNCHANGED <<cfg, chosen>>
Next == ChooseRow \/ Estimate("plain", 7) \/ Estimate("stl", 7)
Spec == Init /\ [][Next]_vars

NeverItself == \A i \in DOMAIN chosen : i \notin chosen[i]
ExactlyN == \A i \in DOMAIN chosen : Cardinality(chosen[i]) = cfg.n
OthersOfTheBatch == \A i \in DOMAIN chosen : chosen[i] \subseteq Rows
SameSamples == elbo.plain # 0 /\ elbo.stl # 0 => elbo.plain = elbo.stl
=============================================================================
