------------------------------ MODULE UnwrapDefs ------------------------------
(* Pure operators over a flat node table ns (see Unwrap.tla), shared by the machine and the trace specification. *)
EXTENDS Integers, Sequences, FiniteSets, TLC

WrapperKinds == {"nt", "rep", "where", "wn", "lam"}
RECURSIVE Desc(_, _)
Desc(ns, i) == {i} \cup UNION {Desc(ns, ns[i].ch[j]) : j \in DOMAIN ns[i].ch}
AncOf(ns, i) == {a \in DOMAIN ns : i \in Desc(ns, a) /\ a # i}

\* P: denotation of unwrap as a term (strings keep TLC values small and comparable)
RECURSIVE Term(_, _)
Term(ns, i) ==
  LET n == ns[i]
      sub(j) == Term(ns, n.ch[j])
      id == ToString(i)
      body == CASE n.k = "arr" -> "a" \o id
                [] n.k = "int" -> "i" \o id
                [] n.k = "node" -> "(" \o sub(1) \o (IF Len(n.ch) > 1 THEN "," \o sub(2) ELSE "") \o ")"
                [] n.k = "nt" -> "SG[" \o sub(1) \o "]"
                [] n.k = "rep" -> n.f \o "[" \o sub(1) \o "]"
                [] n.k = "where" -> "SEL" \o id \o "[" \o sub(1) \o "," \o sub(2) \o "]"
                [] n.k = "wn" -> "WN" \o id \o "[" \o sub(1) \o "]"
                [] n.k = "lam" -> n.f \o "[" \o sub(1) \o (IF Len(n.ch) > 1 THEN "," \o sub(2) ELSE "") \o "]"
  IN IF n.b > 0 THEN "MAP" \o ToString(n.b) \o "{" \o body \o "}" ELSE body

\* "Leaves marked non-trainable ... are not parameterised": trainable = inexact leaf with no NonTrainable above it
TrainableOf(ns, rt) == {i \in Desc(ns, rt) : ns[i].k = "arr" /\ \A a \in AncOf(ns, i) : ns[a].k # "nt"}
FrozenOf(ns, rt) == {i \in Desc(ns, rt) : ns[i].k = "arr"} \ TrainableOf(ns, rt)
NonFloatOf(ns, rt) == {i \in Desc(ns, rt) : ns[i].k = "int"}
WrappersOf(ns, rt) == {i \in Desc(ns, rt) : ns[i].k \in WrapperKinds}
\* a WeightNormalization node owns a scale parameter; it is trainable iff no NonTrainable is above the node
WNScaleTrainable(ns, i) == \A a \in AncOf(ns, i) : ns[a].k # "nt"
=============================================================================
