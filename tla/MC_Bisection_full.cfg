SPECIFICATION Spec
CONSTANTS
  AMax = 9
  KMax = 12
  MaxIters = {0, 1, 3, 7, 11}
  TolWs = {2, 8, 64, 1024, 4096, 16384}
  Dim = 1
  EmitCases = FALSE
INVARIANT Bracket
INVARIANT Accurate
INVARIANT AccurateByIter
INVARIANT ExactHit
INVARIANT HitCollapses
INVARIANT EndsIncluded
INVARIANT WidthHalves
INVARIANT AdaptCovers
INVARIANT AdaptBound
INVARIANT IterBound
INVARIANT StillExact
INVARIANT PrefixFinal
INVARIANT LevelBound
CONSTRAINT Emit
CHECK_DEADLOCK FALSE
