SPECIFICATION Spec
CONSTANTS
  L = 3
  MaxSteps = 3
  Ties = FALSE
  BestRule = "post"
  EmitCases = FALSE
INVARIANT ExactlySteps
INVARIANT OneLossPerStep
INVARIANT ReturnsArgmin
INVARIANT ReturnsLast
INVARIANT ReturnsInitialIfNoStep
INVARIANT FreshKeys
CONSTRAINT Emit
CHECK_DEADLOCK FALSE
