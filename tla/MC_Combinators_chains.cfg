SPECIFICATION Spec
CONSTANTS
  Shapes <- ShapesChains
  MaxDepth = 3
  Focus = "chains"
  MaxSize = 12
  AsFound = FALSE
  EmitCases = TRUE
INVARIANT DeclaredShapeIsSemantic
INVARIANT Exact
INVARIANT RoundTrip
INVARIANT LogDetsOpposite
INVARIANT MergeChainsSame
INVARIANT InvertSwaps
CONSTRAINT Emit
VIEW View
CHECK_DEADLOCK FALSE
