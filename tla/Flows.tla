-------------------------------- MODULE Flows --------------------------------
(***************************************************************************)
(* Transformed distributions: the three evaluation paths of                *)
(* flowjax.distributions.AbstractTransformed over the exact combinator     *)
(* semantics of CombDefs (DESIGN 4.9, property C03).                       *)
(*                                                                         *)
(* The base "distribution" is exact too: with weights w_i = i + 1,         *)
(*   lp(z, c)     = -(sum_i w_i z_i) - (sum_m (m+1) c_m  if conditional)   *)
(*   sample(k, c) = z with z_i = U (7 k + 3 i + 1) (+ U sum_m c_m / U ...) *)
(* so a flipped log-det sign, a condition that does not reach a            *)
(* conditional base, a reversed merge_transforms or an orientation         *)
(* mismatch each change an exact integer.  Log-probabilities are pairs     *)
(* (lin, ld2): the linear part and the log2-determinant part.              *)
(*                                                                         *)
(* Distribution expressions:                                               *)
(*   [k |-> "base", shape, cond]            cond: BOOLEAN (condition <<2>>) *)
(*   [k |-> "tr", base |-> d, bij |-> p]    Transformed(d, p)              *)
(* Paths (as in distributions.py):                                         *)
(*   LogProb   inverse_and_log_det then base log-prob, added               *)
(*   Sample    base sample pushed through transform                        *)
(*   Joint     base sample_and_log_prob, minus the forward log-det         *)
(***************************************************************************)
EXTENDS Integers, Sequences, FiniteSets, TLC, Json, CombDefs

CONSTANTS FlowShapes, MaxNest, EmitCases
VARIABLES d, nest, res
vars == <<d, nest, res>>

CondShape == <<2>>
W(i) == i + 1
\* ---- exact base -----------------------------------------------------------------------------------------------
BaseLp(b, z, c) == [lin |-> 0 - SumSeq([i \in 1..Len(z) |-> W(i - 1) * z[i]])
                             - (IF b.cond THEN SumSeq([m \in 1..Len(c) |-> m * c[m]]) ELSE 0),
                    ld2 |-> 0]
BaseSample(b, key, c) == [i \in 1..Prod(b.shape) |->
                            U * (7 * key + 3 * i + 1) + (IF b.cond THEN SumSeq([m \in 1..Len(c) |-> (m + i) * c[m]]) ELSE 0)]

RECURSIVE DShape(_), DCond(_), LogProb(_, _, _), Sample(_, _, _), Joint(_, _, _), DValid(_)
DShape(q) == IF q.k = "base" THEN q.shape ELSE DShape(q.base)
DCond(q) == IF q.k = "base" THEN (IF q.cond THEN CondShape ELSE None)
            ELSE MergeCond({DCond(q.base), SemCond(q.bij)})
DValid(q) == IF q.k = "base" THEN TRUE
             ELSE /\ DValid(q.base) /\ Valid(q.bij) /\ SemShape(q.bij) = DShape(q.base)
                  /\ (DCond(q.base) = None \/ SemCond(q.bij) = None \/ DCond(q.base) = SemCond(q.bij))
LpAdd(a, b) == [lin |-> a.lin + b.lin, ld2 |-> a.ld2 + b.ld2]
LogProb(q, x, c) ==
  IF q.k = "base" THEN BaseLp(q, x, c)
  ELSE LET r == Run(q.bij, "i", x, c) IN LpAdd(LogProb(q.base, r.v, c), [lin |-> 0, ld2 |-> r.ld])
Sample(q, key, c) ==
  IF q.k = "base" THEN BaseSample(q, key, c) ELSE Run(q.bij, "f", Sample(q.base, key, c), c).v
Joint(q, key, c) ==
  IF q.k = "base" THEN [x |-> BaseSample(q, key, c), lp |-> BaseLp(q, BaseSample(q, key, c), c)]
  ELSE LET j == Joint(q.base, key, c)
           r == Run(q.bij, "f", j.x, c)
       IN [x |-> r.v, lp |-> LpAdd(j.lp, [lin |-> 0, ld2 |-> 0 - r.ld])]

\* merge_transforms: nested transformed distributions become one Transformed(base, Chain(innermost first))
RECURSIVE BijList(_), Innermost(_)
BijList(q) == IF q.k = "base" THEN <<>> ELSE BijList(q.base) \o <<q.bij>>
Innermost(q) == IF q.k = "base" THEN q ELSE Innermost(q.base)
Merged(q) == IF q.k = "base" \/ q.base.k = "base" THEN q
             ELSE [k |-> "tr", base |-> Innermost(q), bij |-> [k |-> "chain", parts |-> BijList(q)]]

\* ---- bijection programs used as layers ------------------------------------------------------------------------
Layers(s, n) ==
  { [k |-> "aff", id |-> n, shape |-> s],
    [k |-> "cadd", id |-> n, shape |-> s, cs |-> CondShape],
    [k |-> "invert", p |-> [k |-> "aff", id |-> n, shape |-> s]],
    [k |-> "chain", parts |-> <<[k |-> "aff", id |-> n, shape |-> s], [k |-> "perm", id |-> n, shape |-> s]>>],
    [k |-> "chain", parts |-> <<[k |-> "cadd", id |-> n, shape |-> s, cs |-> CondShape], [k |-> "aff", id |-> n + 1, shape |-> s]>>],
    [k |-> "invert", p |-> [k |-> "scan", ids |-> <<n, n + 1>>, shape |-> s]],
    [k |-> "scan", ids |-> <<n, n + 1>>, shape |-> s] }
  \cup (IF Len(s) = 1 THEN { [k |-> "vmap", p |-> [k |-> "aff", id |-> n, shape |-> <<>>], n |-> s[1], mapped |-> TRUE, cax |-> -9] } ELSE {})

Eval(q) ==
  LET cs == DCond(q)
      c == COf(cs)
      x == Sample(q, 5, c)          \* a point of the support: the image of another base draw, so every inverse is exact
      lp == LogProb(q, x, c)
      sm == Sample(q, 3, c)
      j == Joint(q, 3, c)
      m == Merged(q)
  IN [shape |-> DShape(q), cs |-> cs, x |-> x, c |-> c, key |-> 3,
      lp |-> lp, sample |-> sm, joint |-> j,
      pathsagree |-> j.x = sm /\ j.lp = LogProb(q, sm, c),
      mergesame |-> LogProb(m, x, c) = lp /\ Sample(m, 3, c) = sm /\ Joint(m, 3, c) = j,
      invexact |-> (q.k = "base") \/ Run(q.bij, "i", x, c).ok]

Init == /\ \E s \in FlowShapes, cond \in BOOLEAN : d = [k |-> "base", shape |-> s, cond |-> cond]
        /\ nest = 0 /\ res = Eval(d)
Wrap == /\ nest < MaxNest
        /\ \E b \in Layers(DShape(d), 2 + 4 * nest) :
             LET q == [k |-> "tr", base |-> d, bij |-> b] IN
             /\ DValid(q)
             /\ d' = q /\ nest' = nest + 1 /\ res' = Eval(q)
Next == Wrap
Spec == Init /\ [][Next]_vars

InverseExact == res.invexact
\* ---- theorems (C03) -----------------------------------------------------------------------------------------------
\* "the log-probability returned together with a sample equals log_prob evaluated at that sample", and the sample of
\* the joint path is the sample of the sampling path
PathsAgree == res.pathsagree
\* merge_transforms never changes the distribution
MergeTransformsSame == res.mergesame
\* the condition reaches a conditional base under an unconditional bijection, and a conditional bijection over an
\* unconditional base: the distribution is conditional iff any part is
CondPropagates == (res.cs # None) <=> (\E i \in 1..Len(BijList(d)) : SemCond(BijList(d)[i]) # None) \/ Innermost(d).cond

Case == [dist |-> d, nest |-> nest, r |-> res]
Emit == EmitCases => PrintT("CASE " \o ToJson(Case))
View == d
=============================================================================
