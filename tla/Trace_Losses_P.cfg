SPECIFICATION Spec
CONSTANTS
  Layer = "P"
  Skip = {}
CONSTRAINT Reg
INVARIANT AtMostN
POSTCONDITION Post
CHECK_DEADLOCK FALSE
