SPECIFICATION Spec
CONSTANTS
  Layer = "I"
  Skip = {}
CONSTRAINT Reg
INVARIANT AtMostN
POSTCONDITION Post
CHECK_DEADLOCK FALSE
