SPECIFICATION Spec
CONSTANTS
  Layer = "P"
  Skip = {}
CONSTRAINT Reg
INVARIANT IterBound
POSTCONDITION Post
CHECK_DEADLOCK FALSE
