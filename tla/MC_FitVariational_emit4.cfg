SPECIFICATION Spec
CONSTANTS
  L = 4
  MaxSteps = 4
  Ties = FALSE
  BestRule = "pre"
  EmitCases = TRUE
INVARIANT ExactlySteps
INVARIANT OneLossPerStep
INVARIANT ReturnsArgmin
INVARIANT ReturnsLast
INVARIANT ReturnsInitialIfNoStep
INVARIANT FreshKeys
CONSTRAINT Emit
CHECK_DEADLOCK FALSE
