-------------------------------- MODULE Params --------------------------------
(***************************************************************************)
(* Constrained parameters (DESIGN 4.10, property C11): a history machine   *)
(* over the RAW (unconstrained) trainable leaves of a model.  An update    *)
(* may set a whole leaf, one element of it, or alternate signs, to any     *)
(* value of a grid in +-50 -- such as any sequence of optimiser updates    *)
(* can reach, including adversarial jumps.  The constrained view of a leaf *)
(* is a function of its raw values; the clauses of C11 are invariants of   *)
(* that view:                                                              *)
(*   softplus(raw) > 0                 scales, triangular diagonals, df    *)
(*   softplus(raw) + m >= m            spline derivatives, min-scale affine *)
(*   softmax-with-floor, cumulative    spline knots strictly increasing    *)
(*   log_softmax                       mixture weights normalised          *)
(* TLC's -simulate mode produces the histories; the harness applies them   *)
(* to real models with eqx.tree_at, records the abstraction of the         *)
(* constrained values after every update, and Trace_Params validates every *)
(* recorded history against the invariants.                                *)
(***************************************************************************)
EXTENDS Integers, Sequences, FiniteSets, TLC, Json
CONSTANTS K,        \* number of raw leaves addressed (the harness maps them onto the model's leaves modulo their number)
          Grid,     \* raw values (integers; +-50 is where float32 softplus still does not underflow)
          MaxLen, EmitCases
VARIABLES raw, hist
vars == <<raw, hist>>
Modes == {"all", "one", "alt", "ramp"}

Init == raw = [l \in 1..K |-> [mode |-> "all", v |-> 0]] /\ hist = <<>>
Update == /\ Len(hist) < MaxLen
          /\ \E l \in 1..K, m \in Modes, v \in Grid :
               /\ raw' = [raw EXCEPT ![l] = [mode |-> m, v |-> v]]
               /\ hist' = Append(hist, [leaf |-> l, mode |-> m, v |-> v])
Next == Update
Spec == Init /\ [][Next]_vars

\* the sign abstraction of the constraint functions: for every real raw value
SoftplusSign(v) == 1                     \* log(1 + e^v) > 0
\* design statement: whatever the history, every constrained scale is positive
ConstrainedPositive == \A l \in 1..K : SoftplusSign(raw[l].v) = 1
Bounded == \A l \in 1..K : raw[l].v \in Grid \cup {0}

Emit == (EmitCases /\ Len(hist) = MaxLen) => PrintT("CASE " \o ToJson([hist |-> hist]))
=============================================================================
