SPECIFICATION Spec
CONSTANTS
  MaxBlock = 3
  MaxN = 4
  Offsets <- OffsetsDef
  MaxDepth = 3
  EmitCases = TRUE
INVARIANT DiagInsideTril
INVARIANT TrilIsLowerBlocks
INVARIANT NetworkTriangularPositive
CONSTRAINT Emit
CHECK_DEADLOCK FALSE
