SPECIFICATION Spec
CONSTANTS
  Layer = "I"
  Skip = {}
CONSTRAINT Reg
INVARIANT NeverMovesFrozen
POSTCONDITION Post
CHECK_DEADLOCK FALSE
