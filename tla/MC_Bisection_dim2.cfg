SPECIFICATION Spec
CONSTANTS
  AMax = 2
  KMax = 3
  MaxIters = {0, 2}
  TolWs = {2, 8}
  Dim = 2
  EmitCases = FALSE
INVARIANT Bracket
INVARIANT Accurate
INVARIANT AccurateByIter
INVARIANT ExactHit
INVARIANT HitCollapses
INVARIANT EndsIncluded
INVARIANT WidthHalves
INVARIANT AdaptCovers
INVARIANT AdaptBound
INVARIANT IterBound
INVARIANT StillExact
INVARIANT PrefixFinal
INVARIANT LevelBound
CONSTRAINT Emit
CHECK_DEADLOCK FALSE
