SPECIFICATION Spec
CONSTANTS
  MaxNodes = 5
  MaxSteps = 1
  EmitCases = TRUE
INVARIANT ExactlyOnce
INVARIANT InnerFirst
INVARIANT NoWrapperLeft
INVARIANT FrozenBitIdentical
INVARIANT OnlyLeavesChange
INVARIANT TrainableIsArrNoNT
CONSTRAINT Emit
CHECK_DEADLOCK FALSE
