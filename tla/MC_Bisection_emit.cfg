SPECIFICATION Spec
CONSTANTS
  AMax = 3
  KMax = 4
  MaxIters = {0, 2, 3}
  TolWs = {2, 4, 16, 64}
  Dim = 1
  EmitCases = TRUE
INVARIANT Bracket
INVARIANT Accurate
INVARIANT AccurateByIter
INVARIANT ExactHit
INVARIANT HitCollapses
INVARIANT EndsIncluded
INVARIANT WidthHalves
INVARIANT AdaptCovers
INVARIANT AdaptBound
INVARIANT IterBound
INVARIANT StillExact
INVARIANT PrefixFinal
INVARIANT LevelBound
CONSTRAINT Emit
CHECK_DEADLOCK FALSE
