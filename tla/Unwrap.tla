-------------------------------- MODULE Unwrap --------------------------------
(***************************************************************************)
(* flowjax.wrappers.unwrap and the trainable / frozen partition used by    *)
(* both training loops and by the coupling / autoregressive conditioners   *)
(* (DESIGN 4.4, property C12).                                             *)
(*                                                                         *)
(* A pytree is a flat node table (node 1..Len(nodes), children by index):  *)
(*   arr   an inexact array leaf          int   a non-floating leaf        *)
(*   node  a container (tuple)                                              *)
(*   nt    NonTrainable(t)                rep   BijectionReparam(t, f)     *)
(*   where Where(mask, t1, t2)            wn    WeightNormalization(t)     *)
(*   lam   Lambda(g, t1 [, t2])                                             *)
(* and a wrapper may be `batched` (constructed under filter_vmap).         *)
(*                                                                         *)
(* Phases of the machine:                                                  *)
(*  build   grow a tree (every tree up to MaxNodes nodes is visited)       *)
(*  unwrap  the I layer of unwrap(): a wrapper node may be unwrapped once  *)
(*          all wrapper nodes below it are (recursive_unwrap flattens one  *)
(*          level, unwraps the children, rebuilds, then applies the node's *)
(*          own unwrap); independent wrappers may go in any order          *)
(*  train   optimiser steps: only trainable leaves change                  *)
(* P: NoWrapperLeft, ExactlyOnce, order independence of the result term,   *)
(*    Idempotent, FrozenBitIdentical, Trainable = inexact /\ no nt above.  *)
(***************************************************************************)
EXTENDS Integers, Sequences, FiniteSets, TLC, Json, UnwrapDefs

CONSTANTS MaxNodes, MaxSteps, EmitCases

VARIABLES nodes, root, phase, done, applied, ver, steps
vars == <<nodes, root, phase, done, applied, ver, steps>>

IsWrapper(i) == nodes[i].k \in WrapperKinds
Ids == 1..Len(nodes)
Leaf(kind) == [k |-> kind, ch |-> <<>>, f |-> "", b |-> 0]
Below(i) == Desc(nodes, i) \ {i}
Anc(i) == AncOf(nodes, i)
InTree == Desc(nodes, root)
Trainable == TrainableOf(nodes, root)
Frozen == FrozenOf(nodes, root)
NonFloat == NonFloatOf(nodes, root)
WrapperNodes == WrappersOf(nodes, root)

\* ---- build phase -----------------------------------------------------------------------------------------------
Init == /\ nodes = <<Leaf("arr")>> /\ root = 1 /\ phase = "build" /\ done = {} /\ applied = <<>> /\ ver = <<>>
        /\ steps = 0

Room(k) == Len(nodes) + k <= MaxNodes
New1(n) == /\ nodes' = Append(nodes, n) /\ root' = Len(nodes) + 1
WrapNT == /\ phase = "build" /\ Room(1)
          /\ New1([k |-> "nt", ch |-> <<root>>, f |-> "", b |-> 0])
          /\ UNCHANGED <<phase, done, applied, ver, steps>>
\* BijectionReparam / WeightNormalization / Where wrap an array or a wrapper that yields an array
YieldsArray(i) == nodes[i].k \in {"arr", "rep", "where", "wn"} \/ (nodes[i].k = "lam" /\ nodes[i].f = "NEG")
WrapRep == /\ phase = "build" /\ Room(1) /\ YieldsArray(root) /\ nodes[root].b = 0
           /\ \E f \in {"EXP", "SOFTPLUS", "TANH", "SPLOC"} : New1([k |-> "rep", ch |-> <<root>>, f |-> f, b |-> 0])
           /\ UNCHANGED <<phase, done, applied, ver, steps>>
WrapWN == /\ phase = "build" /\ Room(1) /\ YieldsArray(root) /\ nodes[root].b = 0
          /\ New1([k |-> "wn", ch |-> <<root>>, f |-> "", b |-> 0])
          /\ UNCHANGED <<phase, done, applied, ver, steps>>
WrapWhere == /\ phase = "build" /\ Room(2) /\ YieldsArray(root) /\ nodes[root].b = 0
             /\ \E side \in {1, 2} :
                  LET fresh == Len(nodes) + 1 IN
                  /\ nodes' = nodes \o <<Leaf("arr"), [k |-> "where", ch |-> (IF side = 1 THEN <<root, fresh>> ELSE <<fresh, root>>), f |-> "", b |-> 0]>>
                  /\ root' = Len(nodes) + 2
             /\ UNCHANGED <<phase, done, applied, ver, steps>>
WrapLam == /\ phase = "build" /\ YieldsArray(root) /\ nodes[root].b = 0
           /\ \/ Room(1) /\ New1([k |-> "lam", ch |-> <<root>>, f |-> "NEG", b |-> 0])
              \/ /\ Room(2)
                 /\ nodes' = nodes \o <<Leaf("arr"), [k |-> "lam", ch |-> <<root, Len(nodes) + 1>>, f |-> "PAIR", b |-> 0]>>
                 /\ root' = Len(nodes) + 2
           /\ UNCHANGED <<phase, done, applied, ver, steps>>
\* put the tree in a container next to a fresh leaf, or next to a fresh independent wrapper
Contain == /\ phase = "build" /\ Room(2)
           /\ \E other \in {"arr", "int"} :
                /\ nodes' = nodes \o <<Leaf(other), [k |-> "node", ch |-> <<root, Len(nodes) + 1>>, f |-> "", b |-> 0]>>
                /\ root' = Len(nodes) + 2
           /\ UNCHANGED <<phase, done, applied, ver, steps>>
ContainWrapped ==
  /\ phase = "build" /\ Room(3)
  /\ \E w \in {"nt", "rep"} :
       LET a == Len(nodes) + 1 IN
       /\ nodes' = nodes \o <<Leaf("arr"), [k |-> w, ch |-> <<a>>, f |-> (IF w = "rep" THEN "EXP" ELSE ""), b |-> 0],
                              [k |-> "node", ch |-> <<a + 1, root>>, f |-> "", b |-> 0]>>
       /\ root' = a + 2
  /\ UNCHANGED <<phase, done, applied, ver, steps>>
\* the root wrapper was constructed under filter_vmap with axis size 2 (its arrays carry a leading batch axis)
Batch == /\ phase = "build" /\ IsWrapper(root) /\ nodes[root].b = 0 /\ nodes[root].k \in {"rep", "lam", "where", "nt"}
         /\ \A d \in Below(root) : nodes[d].k # "wn"
         /\ Cardinality({d \in Below(root) : nodes[d].b > 0}) <= 1       \* 0-2 levels of vmapped construction
         /\ nodes' = [nodes EXCEPT ![root].b = 2]
         /\ UNCHANGED <<root, phase, done, applied, ver, steps>>

StartUnwrap == /\ phase = "build" /\ phase' = "unwrap" /\ done' = {} /\ applied' = <<>>
               /\ ver' = [i \in Ids |-> 0]
               /\ UNCHANGED <<nodes, root, steps>>

\* ---- unwrap phase (I) --------------------------------------------------------------------------------------------
UnwrapNode(i) == /\ phase = "unwrap" /\ i \in WrapperNodes \ done
                 /\ (Below(i) \cap WrapperNodes) \subseteq done          \* children first
                 /\ done' = done \cup {i} /\ applied' = Append(applied, i)
                 /\ UNCHANGED <<nodes, root, phase, ver, steps>>
FinishUnwrap == /\ phase = "unwrap" /\ done = WrapperNodes /\ phase' = "train"
                /\ UNCHANGED <<nodes, root, done, applied, ver, steps>>

\* ---- train phase: an optimiser step may change any subset of the trainable leaves, nothing else ---------------
OptimiserStep == /\ phase = "train" /\ steps < MaxSteps
                 /\ \E S \in SUBSET Trainable :
                      ver' = [i \in Ids |-> IF i \in S THEN ver[i] + 1 ELSE ver[i]]
                 /\ steps' = steps + 1
                 /\ UNCHANGED <<nodes, root, phase, done, applied>>

Next == WrapNT \/ WrapRep \/ WrapWN \/ WrapWhere \/ WrapLam \/ Contain \/ ContainWrapped \/ Batch \/ StartUnwrap
        \/ (\E i \in Ids : UnwrapNode(i)) \/ FinishUnwrap \/ OptimiserStep
Spec == Init /\ [][Next]_vars

\* ---- P ------------------------------------------------------------------------------------------------------------
\* every wrapper is applied exactly once, inner wrappers before the wrappers containing them
ExactlyOnce == /\ \A p, q \in DOMAIN applied : applied[p] = applied[q] => p = q
               /\ phase = "train" => {applied[p] : p \in DOMAIN applied} = WrapperNodes
InnerFirst == \A p, q \in DOMAIN applied : applied[p] \in Below(applied[q]) => p < q
NoWrapperLeft == phase = "train" => done = WrapperNodes
\* the unwrapped tree contains no wrapper node: unwrapping it again is the identity (Idempotent), which in the term
\* language reads: the term mentions every wrapper node's operator once per occurrence in the tree
\* frozen and non-floating leaves never change
FrozenBitIdentical == phase = "train" => \A i \in Frozen \cup NonFloat : ver[i] = 0
OnlyLeavesChange == phase = "train" => \A i \in Ids : nodes[i].k # "arr" => ver[i] = 0
TrainableIsArrNoNT == \A i \in Trainable : nodes[i].k = "arr" /\ ~\E a \in Anc(i) : nodes[a].k = "nt"

Case == [nodes |-> nodes, root |-> root, term |-> Term(nodes, root), trainable |-> Trainable, frozen |-> Frozen,
         nonfloat |-> NonFloat, wrappers |-> WrapperNodes,
         wnscale |-> {i \in WrapperNodes : nodes[i].k = "wn" /\ WNScaleTrainable(nodes, i)}]
Emit == (EmitCases /\ phase = "unwrap" /\ done = {}) => PrintT("CASE " \o ToJson(Case))
=============================================================================
