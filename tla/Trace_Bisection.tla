--------------------------- MODULE Trace_Bisection ---------------------------
(***************************************************************************)
(* code -> spec for the bisection inverter (DESIGN 4.3, C10).              *)
(*                                                                         *)
(* One record per scalar search (one coordinate of one call of the public  *)
(* AutoregressiveBisectionInverter), recorded through the function the     *)
(* caller supplies:                                                        *)
(*   cfg {maxiter, exact, tolw, w}                                         *)
(*   ev  [{r, s, u}]   r = rank of the evaluated point among all points of *)
(*                     this search (even numbers; order-preserving, so any *)
(*                     float run can be validated), s = sign of the        *)
(*                     function there, u = exact position in units of      *)
(*                     w/2^q from the initial lower end when the run is    *)
(*                     dyadic-exact (cfg.exact), else 0                    *)
(*   ret {r, u, within, evals}   r = rank code of the returned point (odd  *)
(*                     = strictly between two evaluated points)            *)
(*                                                                         *)
(* P layer: the answers are those of an increasing function (assumption    *)
(*   check), `within` (an exact hit being returned exactly and the result  *)
(*   lying in the observed sign bracket are I: C10 promises the tolerance  *)
(*   only, and nothing when max_iter cuts the search short), `within` (|result - root| <= max(tol, resolution), computed *)
(*   by the harness in floating point and logged next to the numbers).     *)
(* I layer: the evaluation sequence is the one of Bisection.tla: ends,     *)
(*   doubling moves away from the wrong side, then midpoints of the        *)
(*   current bracket with the three-way update.  In exact runs positions   *)
(*   are compared with the model's arithmetic, otherwise by rank.          *)
(***************************************************************************)
EXTENDS Integers, Sequences, FiniteSets, TLC, Json, IOUtils

CONSTANTS Layer, Skip
Traces == ndJsonDeserialize(IOEnv.TRACE_FILE)

VARIABLES tid, l, phase, lo, hi, ulo, uhi, ex, slo, shi, it, k, neg, pos, zero
vars == <<tid, l, phase, lo, hi, ulo, uhi, ex, slo, shi, it, k, neg, pos, zero>>

G(name, p) == name \in Skip \/ p
GI(name, p) == Layer = "P" \/ name \in Skip \/ p
T == Traces[tid]
Ev == T.ev
Exact == T.cfg.exact
None == -999999

Init == /\ tid \in 1..Len(Traces) /\ l = 1 /\ phase = "evalLo"
        /\ lo = None /\ hi = None /\ ulo = 0 /\ uhi = 0 /\ ex = 0 /\ slo = 9 /\ shi = 9 /\ it = 0 /\ k = 0
        /\ neg = None /\ pos = None /\ zero = None

\* P bookkeeping: highest point with negative sign, lowest with positive sign, the zero point -- and the check that
\* the recorded answers are those of an increasing function
Observe(e) ==
  /\ G("IncreasingFunction",
        /\ (e.s = -1 => (pos = None \/ e.r < pos) /\ (zero = None \/ e.r < zero))
        /\ (e.s = 1 => (neg = None \/ e.r > neg) /\ (zero = None \/ e.r > zero))
        /\ (e.s = 0 => (neg = None \/ e.r > neg) /\ (pos = None \/ e.r < pos) /\ (zero = None \/ zero = e.r)))
  /\ neg' = (IF e.s = -1 /\ (neg = None \/ e.r > neg) THEN e.r ELSE neg)
  /\ pos' = (IF e.s = 1 /\ (pos = None \/ e.r < pos) THEN e.r ELSE pos)
  /\ zero' = (IF e.s = 0 THEN e.r ELSE zero)

EvalLo ==
  /\ phase = "evalLo" /\ l <= Len(Ev)
  /\ LET e == Ev[l] IN
     /\ Observe(e)
     /\ (it = 0 => lo' = e.r /\ ulo' = e.u /\ GI("StartsAtLower", ~Exact \/ e.u = 0))
     /\ (it > 0 => GI("AdaptPoint", e.r = lo /\ (~Exact \/ e.u = ulo)) /\ UNCHANGED <<lo, ulo>>)
     /\ slo' = e.s
  /\ phase' = "evalHi" /\ l' = l + 1
  /\ UNCHANGED <<tid, hi, uhi, ex, shi, it, k>>

EvalHi ==
  /\ phase = "evalHi" /\ l <= Len(Ev)
  /\ LET e == Ev[l] IN
     /\ Observe(e)
     /\ (it = 0 => /\ hi' = e.r /\ uhi' = e.u /\ ex' = e.u - ulo
                   /\ GI("LowerBelowUpper", e.r > lo))
     /\ (it > 0 => GI("AdaptPoint", e.r = hi /\ (~Exact \/ e.u = uhi)) /\ UNCHANGED <<hi, uhi, ex>>)
     /\ shi' = e.s
  /\ phase' = "adapt" /\ l' = l + 1
  /\ UNCHANGED <<tid, lo, ulo, slo, it, k>>

\* the loop body of _adapt_interval_to_include_root: the next two events are the new ends
AdaptMove ==
  /\ phase = "adapt" /\ slo = shi /\ l + 1 <= Len(Ev)
  /\ LET a == Ev[l]
         b == Ev[l + 1]
     IN
     /\ IF slo = 1
          THEN /\ GI("MovesAwayFromWrongSide", a.r < lo /\ b.r = lo)
               /\ GI("ExpansionDoubles", ~Exact \/ (a.u = ulo - ex /\ b.u = ulo))
          ELSE /\ GI("MovesAwayFromWrongSide", a.r = hi /\ b.r > hi)
               /\ GI("ExpansionDoubles", ~Exact \/ (a.u = uhi /\ b.u = uhi + ex))
     /\ lo' = a.r /\ hi' = b.r /\ ulo' = a.u /\ uhi' = b.u
  /\ ex' = 2 * ex /\ it' = it + 1 /\ phase' = "evalLo"
  /\ UNCHANGED <<tid, l, slo, shi, k, neg, pos, zero>>

AdaptExit ==
  /\ phase = "adapt" /\ slo # shi
  /\ LET l1 == IF shi = 0 THEN hi ELSE lo
         u1 == IF shi = 0 THEN uhi ELSE ulo
     IN /\ lo' = l1 /\ ulo' = u1
        /\ hi' = (IF slo = 0 THEN l1 ELSE hi) /\ uhi' = (IF slo = 0 THEN u1 ELSE uhi)
  /\ phase' = "bisect"
  /\ UNCHANGED <<tid, l, ex, slo, shi, it, k, neg, pos, zero>>

BisectStep ==
  /\ phase = "bisect" /\ l <= Len(Ev)
  /\ LET e == Ev[l] IN
     /\ Observe(e)
     /\ G("MaxIter", k < T.cfg.maxiter)
     /\ GI("InsideBracket", IF Exact THEN lo < e.r /\ e.r < hi ELSE lo <= e.r /\ e.r <= hi)
     /\ GI("Midpoint", ~Exact \/ 2 * e.u = ulo + uhi)
     /\ GI("StopsAtTolerance", ~Exact \/ (uhi - ulo) > T.cfg.tolw)
     /\ lo' = (IF e.s = 1 THEN lo ELSE e.r) /\ ulo' = (IF e.s = 1 THEN ulo ELSE e.u)
     /\ hi' = (IF e.s = -1 THEN hi ELSE e.r) /\ uhi' = (IF e.s = -1 THEN uhi ELSE e.u)
  /\ k' = k + 1 /\ l' = l + 1
  /\ UNCHANGED <<tid, phase, ex, slo, shi, it>>

Finish ==
  /\ phase = "bisect" /\ l = Len(Ev) + 1
  /\ GI("ExactHit", zero # None => T.ret.r = zero)
  /\ GI("ResultInSignBracket", /\ (neg # None => T.ret.r >= neg)
                              /\ (pos # None => T.ret.r <= pos)
                              /\ (zero # None \/ (neg # None /\ pos # None)))
  /\ G("Accurate", T.ret.within)
  /\ GI("ReturnsMidpoint", IF lo = hi THEN T.ret.r = lo
                           ELSE IF Exact THEN (lo < T.ret.r /\ T.ret.r < hi) ELSE (lo <= T.ret.r /\ T.ret.r <= hi))
  /\ GI("ReturnsMidpoint", ~Exact \/ 2 * T.ret.u = ulo + uhi)
  /\ GI("RunsUntilTolerance", ~Exact \/ (uhi - ulo) <= T.cfg.tolw \/ k = T.cfg.maxiter)
  /\ phase' = "done" /\ l' = l + 1
  /\ UNCHANGED <<tid, lo, hi, ulo, uhi, ex, slo, shi, it, k, neg, pos, zero>>

Next == EvalLo \/ EvalHi \/ AdaptMove \/ AdaptExit \/ BisectStep \/ Finish
Spec == Init /\ [][Next]_vars

\* P invariant at every step: once both signs are known the root is bracketed by evaluated points
IterBound == "MaxIter" \in Skip \/ k <= T.cfg.maxiter

Reg == TLCSet(tid, IF TLCGet(tid) < l THEN l ELSE TLCGet(tid))
Post == \A t \in 1..Len(Traces) : PrintT(<<"TRACE", t, TLCGet(t), Len(Traces[t].ev) + 2>>)
ASSUME \A t \in 1..Len(Traces) : TLCSet(t, 0)
=============================================================================
