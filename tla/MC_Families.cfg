SPECIFICATION Spec
CONSTANTS
  FamilyNames = {"Normal", "LogNormal", "Gumbel", "Cauchy", "StudentT", "Laplace", "Exponential", "Logistic", "Uniform"}
  EmitCases = TRUE
INVARIANT ShapeIsBroadcast
INVARIANT UniformSupportOrdered
CONSTRAINT Emit
CHECK_DEADLOCK FALSE
