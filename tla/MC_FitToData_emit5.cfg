\* Stopping rule, exhaustive: all orderings of L distinct losses x patience 0..L x max_epochs 0..L x return_best.
\* N = 2 rows, batch 1, 1 validation row: one update per epoch.
SPECIFICATION Spec
CONSTANTS
  Rows = {r1, r2}
  L = 5
  Batches = {1}
  NVals = {1}
  MaxEp = 5
  MaxPat = 5
  Ties = FALSE
  EmitCases = TRUE
SYMMETRY RowSym
VIEW View
INVARIANT TypeOK
INVARIANT Partition
INVARIANT AtMostOncePerEpoch
INVARIANT OnlyRemainderSkipped
INVARIANT NoValidationGradient
INVARIANT FreshKeys
INVARIANT OneLossPerEpoch
INVARIANT StopsAtFirst
INVARIANT NeverEarly
INVARIANT ReturnsArgmin
INVARIANT ReturnsLast
INVARIANT ReturnsInitialIfNoEpoch
INVARIANT StepBound
CONSTRAINT Emit
CHECK_DEADLOCK FALSE
