----------------------------- MODULE Trace_Params -----------------------------
(* code -> spec (C11): the abstraction of the constrained (unwrapped) values of a real model, recorded after every     *)
(* update of its raw parameters.                                                                                      *)
(*   cfg {model, relevant: [names of the clauses that apply to this model]}                                           *)
(*   ev  [{k:"obs", positive, normalised, increasing, ends, minderiv, invertible, rownorm, finite}]  (booleans)        *)
(* Every clause that applies must hold at every step of every history.                                                *)
EXTENDS Integers, Sequences, FiniteSets, TLC, Json, IOUtils
CONSTANTS Layer, Skip
Traces == ndJsonDeserialize(IOEnv.TRACE_FILE)
VARIABLES tid, l, bad
vars == <<tid, l, bad>>
G(name, p) == name \in Skip \/ p
T == Traces[tid]
Rel(name) == \E i \in DOMAIN T.cfg.relevant : T.cfg.relevant[i] = name
Init == tid \in 1..Len(Traces) /\ l = 1 /\ bad = FALSE
Obs == /\ l <= Len(T.ev)
       /\ LET e == T.ev[l] IN
          /\ G("Finite", e.finite)
          /\ (Rel("positive") => G("StrictlyPositive", e.positive))
          /\ (Rel("normalised") => G("WeightsNormalised", e.normalised))
          /\ (Rel("increasing") => G("KnotsStrictlyIncreasing", e.increasing))
          /\ (Rel("ends") => G("KnotsSpanTheInterval", e.ends))
          /\ (Rel("minderiv") => G("DerivativesAtLeastMin", e.minderiv))
          /\ (Rel("invertible") => G("PlanarInvertible", e.invertible))
          /\ (Rel("rownorm") => G("RowsKeepTheirNorm", e.rownorm))
       /\ l' = l + 1 /\ UNCHANGED <<tid, bad>>
Next == Obs
Spec == Init /\ [][Next]_vars
NeverBad == ~bad
Reg == TLCSet(tid, IF TLCGet(tid) < l THEN l ELSE TLCGet(tid))
Post == \A t \in 1..Len(Traces) : PrintT(<<"TRACE", t, TLCGet(t), Len(Traces[t].ev) + 1>>)
ASSUME \A t \in 1..Len(Traces) : TLCSet(t, 0)
=============================================================================
