SPECIFICATION Spec
CONSTANTS
  EventShapes <- EvQuick
  CondShapes <- CsQuick
  BatchShapes <- BsQuick
  SampleShapes <- SsQuick
  EmitCases = TRUE
INVARIANT MapsTotal
INVARIANT MapsOnto
INVARIANT AlignedWhenEqual
INVARIANT KeysInjective
INVARIANT KeysEnough
INVARIANT SampleCondTotal
CONSTRAINT Emit
CHECK_DEADLOCK FALSE
