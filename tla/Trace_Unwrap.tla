----------------------------- MODULE Trace_Unwrap -----------------------------
(* code -> spec (C12): leaf digests recorded along real runs of both training loops.                      *)
(*   cfg {nodes, root, extra_trainable, extra_frozen}   the pytree as a node table (Unwrap.tla) plus the   *)
(*        ids the harness gave to leaves the table does not model (parameters inside reparameterising      *)
(*        bijections, WeightNormalization scales: ids > Len(nodes))                                        *)
(*   ev  [{k:"step", changed:[leaf ids whose SHA-1 digest differs from the previous observation]}]        *)
(*   ret {changed:[ids differing between the input and the returned pytree], grad_nonzero:[ids]}          *)
(* P: frozen and non-floating leaves never change and receive exactly zero gradient.                      *)
(* I: with the counting optimiser every trainable leaf changes at every step.                             *)
EXTENDS Integers, Sequences, FiniteSets, TLC, Json, IOUtils, UnwrapDefs
CONSTANTS Layer, Skip
Traces == ndJsonDeserialize(IOEnv.TRACE_FILE)
VARIABLES tid, l, moved
vars == <<tid, l, moved>>
G(name, p) == name \in Skip \/ p
GI(name, p) == Layer = "P" \/ name \in Skip \/ p
T == Traces[tid]
Ns == T.cfg.nodes
Rt == T.cfg.root
SetOf(s) == {s[i] : i \in DOMAIN s}
MayChange == TrainableOf(Ns, Rt) \cup SetOf(T.cfg.extra_trainable)
MustNot == FrozenOf(Ns, Rt) \cup NonFloatOf(Ns, Rt) \cup SetOf(T.cfg.extra_frozen)

Init == tid \in 1..Len(Traces) /\ l = 1 /\ moved = {}
Step == /\ l <= Len(T.ev) /\ T.ev[l].k = "step"
        /\ G("FrozenBitIdentical", SetOf(T.ev[l].changed) \cap MustNot = {})
        /\ G("OnlyTrainableChange", SetOf(T.ev[l].changed) \subseteq MayChange)
        /\ GI("CountingOptimiserMovesAll", ~T.cfg.counting \/ SetOf(T.ev[l].changed) = MayChange)
        /\ moved' = moved \cup SetOf(T.ev[l].changed)
        /\ l' = l + 1 /\ UNCHANGED tid
Return == /\ l = Len(T.ev) + 1
          /\ G("FrozenBitIdentical", SetOf(T.ret.changed) \cap MustNot = {})
          /\ G("OnlyTrainableChange", SetOf(T.ret.changed) \subseteq MayChange)
          /\ G("ZeroGradientOnFrozen", SetOf(T.ret.grad_nonzero) \cap MustNot = {})
          /\ l' = l + 1 /\ UNCHANGED <<tid, moved>>
Next == Step \/ Return
Spec == Init /\ [][Next]_vars
NeverMovesFrozen == "FrozenBitIdentical" \in Skip \/ moved \cap MustNot = {}
Reg == TLCSet(tid, IF TLCGet(tid) < l THEN l ELSE TLCGet(tid))
Post == \A t \in 1..Len(Traces) : PrintT(<<"TRACE", t, TLCGet(t), Len(Traces[t].ev) + 2>>)
ASSUME \A t \in 1..Len(Traces) : TLCSet(t, 0)
=============================================================================
