SPECIFICATION Spec
CONSTANTS
  AMax = 1
  KMax = 2
  MaxIters = {1}
  TolWs = {2}
  Dim = 2
  EmitCases = TRUE
INVARIANT Bracket
INVARIANT Accurate
INVARIANT AccurateByIter
INVARIANT ExactHit
INVARIANT HitCollapses
INVARIANT EndsIncluded
INVARIANT WidthHalves
INVARIANT AdaptCovers
INVARIANT AdaptBound
INVARIANT IterBound
INVARIANT StillExact
INVARIANT PrefixFinal
INVARIANT LevelBound
CONSTRAINT Emit
CHECK_DEADLOCK FALSE
