SPECIFICATION Spec
CONSTANTS
  Layer = "I"
  Skip = {}
CONSTRAINT Reg
INVARIANT NoValidationGradient
INVARIANT Disjoint
INVARIANT EpochBound
POSTCONDITION Post
CHECK_DEADLOCK FALSE
