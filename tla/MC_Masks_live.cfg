SPECIFICATION FairSpec
CONSTANTS
  Dims = {1, 2, 3, 4}
  Conds = {0, 2}
  Widths = {1, 3, 5}
  Depths = {0, 1, 2}
  NPars = {2}
  EmitCases = FALSE
PROPERTY InverseCompletes
CHECK_DEADLOCK FALSE
