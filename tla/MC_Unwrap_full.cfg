SPECIFICATION Spec
CONSTANTS
  MaxNodes = 7
  MaxSteps = 2
  EmitCases = TRUE
INVARIANT ExactlyOnce
INVARIANT InnerFirst
INVARIANT NoWrapperLeft
INVARIANT FrozenBitIdentical
INVARIANT OnlyLeavesChange
INVARIANT TrainableIsArrNoNT
CONSTRAINT Emit
CHECK_DEADLOCK FALSE
