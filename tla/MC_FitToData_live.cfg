\* Liveness: termination under weak fairness, no state constraint.
SPECIFICATION FairSpec
CONSTANTS
  Rows = {r1, r2, r3}
  L = 3
  Batches = {1, 2}
  NVals = {1}
  MaxEp = 3
  MaxPat = 2
  Ties = TRUE
  EmitCases = FALSE
PROPERTY Terminates
CHECK_DEADLOCK FALSE
