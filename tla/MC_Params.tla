---- MODULE MC_Params ----
EXTENDS Params
GridDef == {-50, -30, -7, -1, 0, 1, 3, 12, 50}
====
