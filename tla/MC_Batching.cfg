SPECIFICATION Spec
CONSTANTS
  MaxN = 12
  MaxB = 14
INVARIANT NoRowTwice
INVARIANT OnlyTrailingRemainder
CONSTRAINT Emit
CHECK_DEADLOCK FALSE
