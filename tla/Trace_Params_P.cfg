SPECIFICATION Spec
CONSTANTS
  Layer = "P"
  Skip = {}
CONSTRAINT Reg
INVARIANT NeverBad
POSTCONDITION Post
CHECK_DEADLOCK FALSE
