---- MODULE MC_Combinators ----
EXTENDS Combinators
ShapesQuick == {<<>>, <<2>>, <<3>>, <<2, 1>>, <<2, 3>>}
ShapesFull == {<<>>, <<1>>, <<2>>, <<3>>, <<1, 2>>, <<2, 1>>, <<2, 2>>, <<2, 3>>, <<3, 2>>, <<1, 2, 2>>, <<2, 1, 2>>, <<2, 2, 1>>}
ShapesChains == {<<2>>, <<2, 1>>}
====
