SPECIFICATION Spec
CONSTANTS
  L = 4
  MaxSteps = 4
  Ties = TRUE
  BestRule = "pre"
  EmitCases = FALSE
INVARIANT ExactlySteps
INVARIANT OneLossPerStep
INVARIANT ReturnsArgmin
INVARIANT ReturnsLast
INVARIANT ReturnsInitialIfNoStep
INVARIANT FreshKeys
CONSTRAINT Emit
CHECK_DEADLOCK FALSE
