#!/bin/bash
# Offline setup: nothing to build (TLC and the Python environment are pre-installed); parse-check every TLA+ module
# and make sure the harness environment imports.
set -e
cd "$(dirname "$0")"
mkdir -p evidence replays
/venv/bin/python - <<'PY'
import sys
sys.path.insert(0, "/verif")
from pathlib import Path
from engine import tlc
import jsonschema, jax, equinox, flowjax  # noqa: F401
mods = sorted(p.name for p in Path("/verif/tla").glob("*.tla"))
for m in mods:
    tlc.sany(m)
print(f"setup ok: {len(mods)} TLA+ modules parse; flowjax from {flowjax.__file__}")
PY
