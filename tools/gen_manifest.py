#!/usr/bin/env python3
"""Regenerate /verif/MANIFEST.json from the table below and validate it against the schema."""
import json
from pathlib import Path

V = Path("/verif")
props = [json.loads(l) for l in open(V / "properties.jsonl")]

# id -> (category, technique, level text, level note, design ref)
CHECKS = {
 "C01": ("exploration",
         "TLA+ specifications as generator (Combinators.tla builder machine supplies the compositions, Elementary.tla the boundary sets and their kink/smooth classification; TLC run at check time); round-trip identity judged on the real code in float64 with conditioning-scaled tolerances",
         "The oracle is the property's own identity (inverse(transform(x)) = x, transform(inverse(y)) = y, the '...and_log_det' point equals the plain one), which no specification can compute for transcendental maps; the specifications contribute the space: every leaf class x parameter regime with its boundary-directed inputs (spline interval ends / knots / float neighbours, +-max_val, +-tanh(max_val), arctanh singularities, planar hyperplane, large magnitudes), TLC-enumerated compositions with real leaves filled in (only onto-R leaves under an Invert), and the bijection of every flow factory x invert x condition x transformer. The exact-integer composite part is model-checked under C08.",
         "float64 and, for the leaf and flow population, float32 (workers started without x64; points up to 100, cond(J) <= 1e3); tolerance 256 eps (1+|x|+|y|) cond(J) with J the forward-mode autodiff Jacobian; bisection-inverted maps use the per-coordinate error recursion (factor 4) and are judged in float64 only; points with cond(J) > 1e11 or overflowing images carry no promise. Points given as integer-dtype arrays must give the values of the float call. A generated program whose evaluation kills the worker process (XLA) is skipped with a note; more than 2 % is a machinery failure.",
         "DESIGN.md 5 (C01)"),
 "C02": ("exploration",
         "TLA+ specifications as generator (as C01); oracle = slogdet of the autodiff Jacobian of the plain transform in float64, one-sided at points the specification classifies as kinks, finite differences as tie-breaker where autodiff through clip/where is ambiguous",
         "Same population and points as C01. The reported forward log-det must equal log|det| of jax.jacobian(transform); the inverse log-det must be minus the forward value at the corresponding point; both must be scalars. At kinks (spline interval end with boundary derivative != 1, planar leaky-relu hyperplane) either one-sided limit is accepted. The exact log2-dets of composites are model-checked under C08, exact spline derivatives under C07.",
         "jnp.clip / jnp.where give gradient 1/2 or 0 at exact ties (e.g. a spline output landing exactly on its interval end), so an autodiff mismatch is re-judged with one-sided and central finite differences to 2e-4 before it is reported (the artefacts are multiples of ln 2). For the Tanh leaf the reference is log sech^2 in its stable form (autodiff's 1 - tanh^2 cancels where tanh saturates). A third tie-breaker extrapolates the autodiff log-det linearly from 2^10 and 2^11 ulps away along every coordinate direction. A non-finite reported log-det is compared with an absolute tolerance.",
         "DESIGN.md 5 (C02)"),
 "C03": ("model_checking",
         "TLA+ specification of the three evaluation paths of Transformed (log_prob / sample / sample_and_log_prob) over the exact combinator semantics with an exact-integer base distribution (Flows.tla), model-checked with TLC over nested expressions; every expression TLC prints is built from the real classes and all three methods (also after merge_transforms) compared with TLC's integers; real flows of all five factories checked against the property's statement via their public parts",
         "TLC checks PathsAgree, MergeTransformsSame, CondPropagates and InverseExact on every nesting (depth <= 2 quick, <= 3 thorough) of conditional / unconditional exact bases with conditional / unconditional bijection layers (affine, additive-condition, chains, Invert, Scan, mapped Vmap). Each state is an implementation test with absolute expected values, so a sign flip applied consistently to both paths, a condition that does not reach a conditional base, or a reversed merge_transforms changes an exact integer. Real flows (5 factories x invert x condition x transformer x dim, perturbed parameters) are checked relationally with base_dist / bijection.",
         "The exact base is a user-defined AbstractDistribution (public extension point) with a linear log-density and a deterministic draw; log-dets are log2-det * ln 2 compared to 1e-9. BNAF and the triangular spline flow are built under a harness-only equinox shim (DESIGN section 8); the BNAF joint-vs-log_prob comparison allows the bisection tolerance. The orientation a factory chooses is implementation-layer (drift note).",
         "DESIGN.md 4.9, 5 (C03)"),
 "C05": ("exploration",
         "TLA+ specification of the supports (exact interval algebra over rationals), independence over coordinates and parameter broadcasting of the named families (Families.tla) model-checked with TLC; every (family, parameters, point) state replayed into the real distribution and compared with the textbook log-density evaluated in NumPy; accessors, MultivariateNormal and mixtures against their textbook formulas",
         "Density, accessor and mixture clauses only. TLC decides exactly which coordinates are inside / on the edge of / outside the support for every state (9 families x scalar/vector broadcasting of loc, scale, df x points), so log_prob must be -inf exactly when a coordinate is outside, never NaN (edges included), and otherwise equal the textbook term summed over coordinates; swapped loc/scale, rate for 1/rate, maxval for maxval-minval, a wrong sign or a mean instead of a sum all change the number. Far points (+-40, +-1e4) are in the TLC grid. After construction every trainable leaf of every named family is moved and the density is compared with the textbook density at the accessor values read back. Mixtures: components 1000 sigma apart, every draw next to a single component, component frequencies = weights at 8 sigma.",
         "NOT DECIDED: the clause 'samples follow that density' needs a goodness-of-fit statistic, which this technique cannot supply (only the structural fact sample = loc + scale * standard draw for the same key is checked). log, exp, lgamma are evaluated with math / NumPy in float64 (trusted base; the formulas were validated against SciPy once at build time).",
         "DESIGN.md 5 (C05), 6"),
 "C06": ("model_checking",
         "TLA+ specification of NumPy broadcasting of batch shapes, the per-element (x slice, condition slice) index maps and the key assignment of the distribution vectoriser (Vectorize.tla), model-checked with TLC over a shape lattice; every configuration TLC prints is replayed on real distributions and each output element compared with the unbatched public call on the slices TLC designates",
         "TLC enumerates (event shape rank 0-2) x (condition shape none / rank 0-2) x (batch shapes of x and of the condition incl. size-1 axes, zero extents, pairs that must be rejected) x sample_shapes, checks the index maps are total, onto and aligned and the key map injective, and writes the maps out; the real log_prob / sample / sample_and_log_prob must have TLC's result shapes, every element must equal the unbatched call on the designated slices, draws must be pairwise distinct and reproducible, non-broadcastable pairs must raise.",
         "Reference values are the same distribution's public methods called with exact (unbatched) shapes. The key schedule (element k uses split(key, n)[k]) is implementation-layer: a different but fresh schedule gives a drift note, not a violation. Unconditional distributions given a condition (which composites hand down to them) must behave as without it: same shapes, and the same values for the same key.",
         "DESIGN.md 4.7, 5 (C06)"),
 "C07": ("model_checking",
         "TLA+ specification of the elementary bijections over exact rationals (Elementary.tla + Rat.tla) model-checked with TLC; every (configuration, point) state is replayed into the real class and compared with TLC's exact rational; transcendental leaves compared with the documented formula evaluated in NumPy",
         "TLC checks on a rational grid that the rational-quadratic spline interpolates its knots, has the stated knot derivatives, is the identity outside, is increasing and that forward and inverse select the same piece at every knot and both interval ends (the unclamped bin lookup of the pinned commit is refuted at the lower end); every state (spline at knots / ends / midpoints / quarter points / outside, Affine incl. negative scales and broadcasting, TriangularAffine lower and upper, every permutation of size <= 4 also as a 2x2 array, LeakyTanh branch at +-max_val) is an implementation test with an exact expected value, which pins consistently-wrong-in-both-directions implementations that round-trip and autodiff checks cannot see. LeakyTanh with max_val 14 / 19.5 / 20 at points 1e6 and 1e8 beyond +-max_val (reference slope cosh(max_val)^-2).",
         "exp, softplus, tanh, log are evaluated with NumPy/math in float64 for the transcendental leaves (trusted base). Spline knots are installed exactly with eqx.tree_at. The planar constraint is taken from the layer's public get_act_scale (the code's m(x) = -1 + log(1 + softplus(x)) differs from the cited paper's -1 + softplus(x); both satisfy w.u > -1).",
         "DESIGN.md 4.8, 5 (C07)"),
 "C08": ("model_checking",
         "TLA+ specification of the combinators with exact integer semantics (Combinators.tla: arrays as C-order integer sequences, dyadic affine / additive-condition / permutation leaves, a builder machine over a shape lattice) model-checked with TLC; every program TLC prints is built from the real classes and all four methods compared bit for bit with TLC's integers",
         "TLC enumerates every composition the builder machine grows (depth 1 exhaustively in quick, depth 2 = 1.8e5 programs in thorough, plus simulated depth-3 programs) over leaf kinds x shape lattice x every valid axis incl. negative ones x Partial index kinds x mapped/broadcast Vmap x condition axes, and checks DeclaredShapeIsSemantic, RoundTrip, LogDetsOpposite, MergeChainsSame, InvertSwaps on each; each program is an implementation test whose expected outputs, log2-dets and shapes TLC computed from the definitions (like jnp.stack / slice by slice / only the indexed entries). The shape formulas as found at the pinned commit are refuted by TLC (Stack / Vmap negative axes; repaired by fix: commits). Exact unit-triangular affine leaves (matrix set after construction), strided Partial slices and vectorised conditional leaves are part of the builder.",
         "Leaf parameters are installed exactly (Affine scale replaced by a power-of-two array via eqx.tree_at, as its docstring documents); dyadic float64 arithmetic is exact, so equality is bit-for-bit; log-dets are compared with log2-det * ln 2 to 1e-12.",
         "DESIGN.md 4.6, 5 (C08)"),
 "C17": ("exploration",
         "TLA+ specification of the contrastive index discipline and the ELBO key discipline (Losses.tla) model-checked with TLC; recorded (x-tag, condition-tag) pairs of the real ContrastiveLoss validated by TLC against Trace_Losses.tla; the other estimators compared with their defining formulas evaluated through the distribution's public methods",
         "Contrastive: every (batch size 2..8, n_contrastive 1..batch-1) run on a tagged user-supplied distribution is a trace TLC accepts only if, for every row, the row itself is evaluated exactly once (the positive) and exactly n distinct other rows are used; the value must equal the softmax cross-entropy recomputed from the recorded sets and be non-negative. ML and ELBO: equality with -mean log_prob and with the mean over sample_and_log_prob(key, (n,)); same ELBO value with stick-the-landing; STL gradient = path-only surrogate; plain - STL gradient = mean score term (a forgotten stop_gradient is about 1e7 above the tolerance). Contrastive runs alternate unit-scale rows with rows spread by 8 / 40 / 300 (logit gaps of thousands of nats).",
         "Exploration level: the numeric estimator identities are decided by running the code; TLC decides the index discipline of the recorded pairs. The tagged distribution and prior are user-defined AbstractDistribution subclasses. Every contrastive run builds a new loss object whose prior has the same class and pytree structure but another parameter value, and evaluates it both directly and as an argument of one jitted caller (a cache keyed on what the loss looks like would return the earlier prior's value).",
         "DESIGN.md 4.10, 5 (C17)"),
 "C18": ("exploration",
         "TLA+ specifications as generator (Elementary.tla guards give the boundary set of every leaf); oracle = finiteness of log_prob and of its input and parameter gradients on the real code",
         "Every population entry in both orientations inside Transformed(StandardNormal, .) at the boundary-directed points: log_prob must be a number or -inf, never NaN; where it is finite, jax.grad w.r.t. the input and eqx.filter_grad w.r.t. every parameter must be finite.",
         "The orientation whose log_prob runs the bisection inverter is checked for the value clause only (reverse-mode differentiation through lax.while_loop is refused by JAX by design). Run in float64 and again in float32 (workers without x64). -inf at an isolated point whose float neighbours on both sides have finite log_prob counts as a masked NaN.",
         "DESIGN.md 5 (C18)"),
 "C09": ("model_checking",
         "TLA+ specifications of the rank-mask composition, the sequential inverse and the block sign algebra (Masks.tla, BlockMasks.tla) model-checked with TLC over the whole configuration grid; every configuration TLC prints is built for real and its Jacobian patterns / masks compared with TLC's reach sets and mask matrices",
         "The structure is discrete algebra over a finite grid, so TLC decides it exhaustively (dim 1..5 x cond {0,1,2} x width 1..7 x depth 0..3 x params 1..3 in the thorough tier; every block shape <= 3x3, <= 4 blocks, offsets -2..2; block networks to depth 3). Each printed configuration becomes an implementation test whose expected dependency set was computed by TLC; weights are set after construction (all-positive, and random of both signs up to 1e3) so that masks applied only at construction would be exposed.",
         "The all-positive weight assignment with ReLU on positive inputs makes every permitted path visible in the autodiff Jacobian; exact zeros in a Jacobian are structural. Equality of the stored masks with the spec's masks is implementation-layer (drift note); the permitted/forbidden dependency sets are the property.",
         "DESIGN.md 4.5, 5 (C09)"),
 "C10": ("model_checking",
         "TLA+ state machine of the interval adaptation, bisection loop and coordinate driver (Bisection.tla) with the root as an adversary, model-checked with TLC; every maximal behaviour replayed through the public inverter on a family of increasing functions; recorded (rank, sign, exact position) traces of randomised real runs validated by TLC against Trace_Bisection.tla",
         "Because the search sees the function only through sign f(p), TLC's adversary construction covers every root (dyadic or not) up to 2^AMax widths away and every (max_iter, tol) of the grid: Bracket, Accurate, iteration bounds and termination are checked in every state. The code is bound to it in both directions: behaviours -> real runs (points compared one by one in exact dyadic arithmetic; accuracy judged at generous max_iter), real randomised runs in float64 and float32 -> trace validation. As an extra, the bracket invariant is discharged as an inductive invariant over unbounded integers by Apalache (tla/apalache/BisectionInd.tla).",
         "Functions are continuous and strictly increasing (recorded signs are checked to be monotone). float64. Accuracy is judged only for runs that max_iter cannot have cut short; evaluation-point equality, exact-hit return and bracket discipline are implementation-layer (drift notes, not violations).",
         "DESIGN.md 4.3, 5 (C10)"),
 "C11": ("exploration",
         "TLA+ model of the constraint mechanisms in exact rationals (Constraints.tla: planar projection, floored-softmax knots, weight normalisation, softplus + floor, log-softmax weights; TLC proves each clause on every case and every case is replayed into the real objects) and a TLA+ history machine over raw parameter leaves (Params.tla; TLC -simulate produces the update histories) bound to real models by trace validation: the abstraction of the constrained values recorded after every update is validated by TLC against Trace_Params.tla; constructor round trips and rejections judged directly",
         "Every TLC history (set a leaf / one element / alternating signs / a ramp to any grid value in +-50) is applied with eqx.tree_at to Affine, Scale, TriangularAffine, StudentT, Normal, Exponential, mixture, two splines, planar (tanh, leaky 0.1, leaky 2.0), weight normalisation and a masked autoregressive flow with the min-scale affine, in float64 and float32, plus real optimisers with absurd learning rates; after every update the clauses (strictly positive, normalised, knots strictly increasing and spanning the interval, derivatives >= min_derivative, planar invertible, rows keep their norm) are recorded and TLC rejects any history in which one fails. Constraints.tla: 9.5e4 states, every mechanism x every input of a finite rational domain (planar: 2-vectors w, u over 7 integers x 5 slopes x 2 scalings; knots: softmax numerators incl. an underflowed weight x 3 floors x 3 intervals; rows down to 1e-9), the clause as an invariant (and the slope > 1 defect, reinstated in the model, must violate it); each case is rebuilt on the real object in float64 and float32 and the constrained values compared with the model's formula. Round trips over magnitudes 1e-6..1e6 and rejection of every invalid argument class the property names.",
         "Exploration level: that softplus / softmax outputs stay positive in floating point is decided by running the code; the specification contributes the histories and the single statement of the invariants. Three known findings are listed in known_findings.json (planar w.u underflow, planar w == 0, weight-normalised zero row).",
         "DESIGN.md 4.10, 5 (C11)"),
 "C12": ("model_checking",
         "TLA+ machine over wrapper trees (Unwrap.tla: build / unwrap / train phases) model-checked with TLC; every tree TLC prints is built from the real wrapper classes and flowjax.wrappers.unwrap compared with TLC's term; per-leaf digest traces of both real training loops validated by TLC against Trace_Unwrap.tla",
         "TLC enumerates every wrapper tree up to 5 (quick) / 7 (thorough) nodes over the five wrapper kinds, containers and 0-2 levels of vmapped construction, checks ExactlyOnce / InnerFirst for every order the recursion may take and FrozenBitIdentical under arbitrary optimiser steps; each tree is an implementation test (value of unwrap = TLC's term, idempotence, no wrapper left, parameter count of the ravelled constructor = TLC's trainable set) and, for a third of them, a training run of either loop with the counting optimiser, SGD(lr=1e3) or Adam whose digests TLC validates. Real flows with frozen subsets and method transparency (m vs unwrap(m), bit-identical) complete it. Frozen components are also followed through public accessors (Chain[i], Chain[a:b], .bijections, Invert.bijection, Transformed.bijection, merge_transforms) into new models, and through histories of two or three training calls on the returned model (either loop, either order).",
         "exp, softplus, tanh, where, norm are evaluated with NumPy in float64 when interpreting TLC's term (trusted base). Leaves are identified by value (distinct by construction). WeightNormalization constructed under filter_vmap cannot be built in this environment (equinox 0.13.8) and is excluded from the batched cases.",
         "DESIGN.md 4.4, 5 (C12)"),
 "C13": ("model_checking",
         "Constructor validity (Valid) and accepted shapes (SemShape / SemCond) of Combinators.tla model-checked with TLC; for every program TLC prints the real constructor must accept iff Valid, and every wrong shape of a lattice must make all four methods raise; every concrete bijection class (found by introspection) and the distribution methods likewise",
         "TLC generates valid compositions and the documented incompatibilities (mismatched shapes in Chain / Concatenate / Stack, mismatched condition shapes, a Partial index set that does not fit, a Reshape that changes the element count) with their expected verdicts; the harness then tries, for each program and each real class, every shape NumPy would silently broadcast (scalar, size-1 axis, extra leading/trailing axis, transposed, flattened, one extent off), a missing and a mis-shaped condition on all four methods (about 1.3e4 rejected calls in quick). Invalid compositions include parts of lower rank whose extents agree. Distributions that are not Transformed (StandardNormal of rank 1 and 2, user-defined ones) and user-defined AbstractBijection subclasses are examined like the library classes.",
         "Any exception counts as rejection. Only the incompatibilities the property names are demanded of constructors; index values are kept in range (JAX clamps out-of-range integer indices by design).",
         "DESIGN.md 4.6, 5 (C13)"),
 "C14": ("exploration",
         "TLA+ specifications as generator (as C01); oracle = the implementation under another interpreter: eager twice, eqx.filter_jit of the bound method, jax.vmap against a Python loop, tree_flatten/unflatten copy, tree_serialise_leaves into a freshly built model",
         "Every population entry x every method: a trace-time failure (Python branch on a tracer, NumPy on a tracer, boolean-mask indexing) is a violation; values must agree to 1e-9 relative (1e-4 for bisection-inverted maps) and copies in the same mode must be bit-identical. Distributions (named families and flows) likewise for log_prob and sample.",
         "eager vs jit and vmap vs loop are not bit-identical on correct code (XLA fuses differently), hence the relative tolerance. The population includes user-defined AbstractBijection subclasses and Partial with NumPy boolean masks / NumPy index arrays.",
         "DESIGN.md 5 (C14)"),
 "C15": ("model_checking",
         "TLA+ state machine of fit_to_data (FitToData.tla, Batching.tla) model-checked with TLC; recorded event traces of the real fit_to_data validated against Trace_FitToData.tla by TLC; TLC-enumerated helper cases replayed into get_batches/train_val_split",
         "TLC exhausts the data-flow model (every split, every batch choice, symmetric rows, every batch size) for the clauses of C15 as invariants; every recorded execution of the real loop over a grid of (n, batch_size, val_prop, condition, epochs) -- scripted runs with tagged rows and real training runs of flows with the library's own loss and real optimisers -- is accepted or rejected by TLC against the same clauses at every step; six corruptions of a recording must each be rejected at the clause they violate (binding self-test). Right level: the property is a statement about every history of a loop with state. A user's own loss on integer-typed ids (beyond 2^24 / 2^53) with 1-D, 2-D and 3-D data arrays: every row handed to the loss is a row of the data set, of its own type and event shape, with its own condition row.",
         "Rows are identified by an index tag; the loss function, optimiser and data are supplied through the public API (no source hooks). The P layer assumes the documented epoch structure (training pass then validation pass). Bounded: n <= 60, 1-4 epochs.",
         "DESIGN.md 4.1, 5 (C15)"),
 "C16": ("model_checking",
         "TLA+ state machines FitToData.tla / FitVariational.tla model-checked with TLC over all loss orderings; every terminal state replayed into the real loops (scripted loss + counting optimiser); the runs' event traces validated by TLC against Trace_FitToData.tla / Trace_FitVariational.tla",
         "TLC visits every ordering of L distinct losses x max_patience x max_epochs/steps x return_best (L=5 quick, L=7 thorough), checks the stopping and selection clauses as invariants and termination under fairness; each terminal state is an implementation test whose expected result TLC computed; traces of those, of randomised longer runs and of real training runs (returned parameters identified by digest, validation losses as ranks) are validated step by step. A float32 subprocess trains with several validation batches per epoch whose epoch means differ by less than an ulp or tie; NaN losses after the first step occur in a quarter of the randomised variational runs (minimum over the numbers).",
         "Losses are scripted as a function of the number of optimiser updates (counting optimiser makes the returned parameter value identify the epoch/step). Ties between losses are outside the property's quantifier: the P layer accepts any argmin.",
         "DESIGN.md 4.1, 4.2, 5 (C16)"),
}

NA = {
 "__dummy__": "",
 "C04": "deciding procedure is numerical quadrature plus a goodness-of-fit statistic; there is no state or transition for a TLA+ specification to decide (DESIGN.md section 6)",
}

def main():
    checks = []
    for pid, (cat, tech, text, note, ref) in sorted(CHECKS.items()):
        checks.append({
            "property_id": pid,
            "quick_cmd": f"./check {pid} --tier quick",
            "thorough_cmd": f"./check {pid} --tier thorough",
            "evidence_file": f"/verif/evidence/{pid}.json",
            "replay_cmd_template": f"./check {pid} --replay {{path}}",
            "engine": "tlc-conformance",
            "level_claimed": {"category": cat, "text": text, "design_ref": ref},
            "level_note": note,
            "technique": tech,
        })
    na = []
    for p in props:
        if p["id"] in CHECKS:
            continue
        na.append({"property_id": p["id"],
                   "reason": NA.get(p["id"], "check not built yet (build in progress; planned in DESIGN.md section 5)")})
    m = {
        "version": 1,
        "setup_cmd": "cd /verif && ./setup.sh",
        "hooks": {
            "guard": "FLOWJAX_VERIF",
            "enable": "no source hooks are needed: every observation goes through public extension points (user-supplied loss_fn / optimizer / bijection-like objects / tagged data). ./check exports FLOWJAX_VERIF=1; flowjax is an editable install, so checks always see /repo's working tree.",
            "baseline_off_cmd": "cd /repo && /venv/bin/python -m pytest -ra -q -p no:cacheprovider --timeout=900 --continue-on-collection-errors",
            "source_commits": [],
            "add_only": True,
        },
        "engines": [{
            "name": "tlc-conformance", "path": "/verif/engine",
            "serves_properties": sorted(CHECKS),
            "kind_free_text": "explicit TLA+ specifications (/verif/tla) checked by TLC; spec->code replay of TLC-enumerated cases; code->spec validation of recorded traces by Trace_* modules (two layers: property / implementation)",
        }],
        "checks": checks,
        "notes": "See DESIGN.md. known_findings.json lists repaired (fix: commits) and known defects. Exit status: 0 held, 1 violation, 2 machinery failure.",
        "not_applicable": na,
    }
    import jsonschema
    jsonschema.validate(m, json.load(open("/root/.vp/MANIFEST.schema.json")))
    (V / "MANIFEST.json").write_text(json.dumps(m, indent=1))
    print(f"MANIFEST.json: {len(checks)} checks, {len(na)} not_applicable")

if __name__ == "__main__":
    main()
