#!/bin/bash
# Run the repository suite (guard off) and compare with BASELINE.json's stable_pass list.
cd /repo && env -u FLOWJAX_VERIF timeout 3000 /venv/bin/python -m pytest -q -p no:cacheprovider --timeout=900 --continue-on-collection-errors -n 8 --junitxml=/tmp/baseline_run.xml > /tmp/baseline_run.log 2>&1
/venv/bin/python - <<'PY'
import json, xml.etree.ElementTree as ET
base=json.load(open('/root/.vp/BASELINE.json'))
t=ET.parse('/tmp/baseline_run.xml')
res={}
for tc in t.iter('testcase'):
    name=f"{tc.get('classname')}::{tc.get('name')}"
    bad=any(ch.tag in('failure','error') for ch in tc)
    skipped=any(ch.tag=='skipped' for ch in tc)
    res[name]='fail' if bad else ('skip' if skipped else 'pass')
missing=[n for n in base['stable_pass'] if res.get(n)!='pass']
print("stable_pass:",len(base['stable_pass']),"now passing:",len(base['stable_pass'])-len(missing))
for m in missing[:20]: print("  NOT PASSING:",m,res.get(m))
PY
