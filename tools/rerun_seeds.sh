#!/bin/bash
# Re-run every seeded change (seeded/<name>/patch.diff) against the quick check of the property it breaks and record
# the outcome in seeded/<name>/meta.json ("last_rerun").  Development aid.
cd "$(dirname "$0")/.."
i=0
for d in seeded/*/; do
  i=$((i+1)); [ -n "${SHARD:-}" ] && [ $((i % ${NSHARD:-1})) -ne "$SHARD" ] && continue
  n=$(basename $d); id=$(/venv/bin/python -c "import json;print(json.load(open('$d/meta.json'))['breaks_property'])")
  base=$(/venv/bin/python -c "import json;print(json.load(open('$d/meta.json')).get('base_commit',''))")
  out=$(MUT_BASE=$base LINES_MAX=400 selftest/run_mutant.sh $d/patch.diff $id quick 2>&1)
  nv=$(echo "$out" | grep -c "^VIOLATION"); ex=$(echo "$out" | grep "^exit=" | cut -d= -f2)
  first=$(echo "$out" | grep "  detail:" | head -1 | cut -c11-260)
  /venv/bin/python - "$d/meta.json" "$nv" "$ex" "$first" <<'PY'
import json,sys
p,nv,ex,first=sys.argv[1:5]
m=json.load(open(p)); m["last_rerun"]={"violation_lines":int(nv),"exit":int(ex or 2),"first_detail":first}; m["detected_by_quick_check"]=int(nv)>0
json.dump(m,open(p,"w"),indent=1)
PY
  echo "$n $id exit=$ex violations=$nv"
done
