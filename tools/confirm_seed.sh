#!/bin/bash
# tools/confirm_seed.sh <name> <PROP> "<pytest targets>"   -- confirm a seeded change independently, then run our check on it.
# Input: /tmp/seeded_out/<name>/{patch.diff,demo.py,notes.md}.  Output: /verif/seeded/<name>/ (patch.diff, demo.py, meta.json)
set -u
NAME="$1"; PROP="$2"; TESTS="$3"; SRC=/tmp/seeded_out/$NAME; WT=/tmp/confirm_$NAME
[ -f "$SRC/patch.diff" ] || { echo "no patch"; exit 2; }
git -C /repo worktree remove --force "$WT" >/dev/null 2>&1
git -C /repo worktree add -q "$WT" HEAD || exit 2
cd "$WT"
export PYTHONPATH="$WT" JAX_PLATFORMS=cpu PYTHONWARNINGS=ignore
timeout 900 /venv/bin/python "$SRC/demo.py" > /tmp/confirm_$NAME.orig.log 2>&1; RC_ORIG=$?
git apply "$SRC/patch.diff" || { echo "patch does not apply"; git -C /repo worktree remove --force "$WT"; exit 2; }
timeout 900 /venv/bin/python "$SRC/demo.py" > /tmp/confirm_$NAME.mut.log 2>&1; RC_MUT=$?
timeout 2400 /venv/bin/python -m pytest -q -p no:cacheprovider -n 8 $TESTS > /tmp/confirm_$NAME.tests.log 2>&1
TESTSUM=$(tail -1 /tmp/confirm_$NAME.tests.log)
FAILED=$(grep -E "^FAILED|^ERROR" /tmp/confirm_$NAME.tests.log | grep -v -E "test_experimental|BNAF|triangular_spline_flow|test_BijectionReparam|test_WeightNormalization|test_Permute_argcheck" | head -5)
cd /verif; git -C /repo worktree remove --force "$WT"
echo "demo on original: rc=$RC_ORIG ($(tail -1 /tmp/confirm_$NAME.orig.log | cut -c1-120))"
echo "demo on mutant:   rc=$RC_MUT ($(tail -1 /tmp/confirm_$NAME.mut.log | cut -c1-160))"
echo "tests: $TESTSUM"; [ -n "$FAILED" ] && echo "NEW FAILURES: $FAILED"
OUT=$(LINES_MAX=60 selftest/run_mutant.sh "$SRC/patch.diff" "$PROP" quick 2>&1)
echo "$OUT" | grep -v "^NOTE" | cut -c1-300 | head -5
DETECTED=$(echo "$OUT" | grep -c "^VIOLATION")
mkdir -p /verif/seeded/$NAME
cp "$SRC/patch.diff" "$SRC/demo.py" /verif/seeded/$NAME/
[ -f "$SRC/notes.md" ] && cp "$SRC/notes.md" /verif/seeded/$NAME/
/venv/bin/python - <<PY
import json
json.dump({"name":"$NAME","breaks_property":"$PROP","origin":"independent sub-agent given only the property text and a scratch worktree",
 "demo_rc_on_original":$RC_ORIG,"demo_rc_on_change":$RC_MUT,"existing_tests":"""$TESTSUM""","existing_tests_cmd":"pytest -n 8 $TESTS",
 "new_test_failures":"""$FAILED""","check_cmd":"selftest/run_mutant.sh seeded/$NAME/patch.diff $PROP quick",
 "violation_lines_reported_by_check":$DETECTED,"detected_by_quick_check":$DETECTED>0,
 "needs_to_manifest":open("$SRC/notes.md").read()[:1500] if __import__("os").path.exists("$SRC/notes.md") else ""},
 open("/verif/seeded/$NAME/meta.json","w"),indent=1)
PY
echo "detected=$DETECTED"
