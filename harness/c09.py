"""C09 -- autoregressive, coupling and block structure holds for all weights.

design      TLC, exhaustive over the grid (dim, cond_dim, width, depth, params per dim): Masks.tla composes the rank
            masks layer by layer (Autoregressive, RankBound, NothingMissing), runs the sequential inverse
            (InverseOrder, NoStuckInverse, InverseCompletes under fairness); BlockMasks.tla multiplies the sign
            patterns of the block layers (NetworkTriangularPositive) and defines the two mask helpers.
spec->code  every configuration TLC prints is built for real:
            I  the Where masks of the network's layers and flowjax.masks.rank_based_mask equal the spec's masks;
            P  with every raw weight and bias set (after construction) to a positive value the non-zero pattern of
               the Jacobian of the transformer parameters is inside TLC's permitted set, and equals it when
               width >= dim; with random weights of both signs and magnitudes up to 1e3 it stays inside; the
               bijection's Jacobian is lower triangular; the sequential inverse (public inv_scan_fn) has coordinates
               0..r final after pass r; coupling layers and block networks likewise; mask helpers equal TLC's.
"""

from __future__ import annotations

import argparse
import json
import random
import sys

import jax

jax.config.update("jax_enable_x64", True)

import equinox as eqx  # noqa: E402
import jax.numpy as jnp  # noqa: E402
import jax.random as jr  # noqa: E402
import numpy as np  # noqa: E402

from engine import tlc  # noqa: E402
from engine.report import Report, main_guard, tier  # noqa: E402

PID = "C09"


def transformer_with(npar: int):
    from flowjax.bijections import Affine, Chain, Loc
    if npar == 1:
        return Loc(0.0)
    if npar == 2:
        return Affine(0.0, 1.0)
    return Chain([Loc(0.0), Affine(0.0, 1.0)])


def set_raw(maf_mlp, fn):
    """Replace every raw weight (the if_true of the Where wrapper) and bias of an MLP by fn(shape, index)."""
    n = len(maf_mlp.layers)
    get = lambda m: [m.layers[i].weight.if_true for i in range(n)] + [m.layers[i].bias for i in range(n)]  # noqa: E731
    old = get(maf_mlp)
    return eqx.tree_at(get, maf_mlp, [fn(o.shape, i) for i, o in enumerate(old)])


def model_check(rep: Report, thorough: bool):
    per = {}
    out = {}
    for mod, cfg, cov in [("Masks", "MC_Masks_full.cfg" if thorough else "MC_Masks_small.cfg", True),
                          ("Masks", "MC_Masks_live.cfg", False), ("MC_BlockMasks", "MC_BlockMasks.cfg", True)]:
        r = tlc.run(mod, cfg, workers=16, coverage=cov, timeout=1800)
        per[cfg] = {"distinct": r.distinct, "generated": r.generated, "depth": r.depth, "wall_s": round(r.wall_s, 1),
                    "result": r.violated or "no error", "cases": len(r.cases)}
        if r.violated:
            rep.machinery_failure(f"the specification itself violates {r.violated} under {cfg}")
            continue
        rep.add("states", r.distinct)
        rep.add("transitions", r.generated)
        out[cfg] = r.cases
    rep.set("tlc_runs", per)
    return out


def replay_maf(rep: Report, cases: list, rng: random.Random, budget: int):
    from flowjax.bijections import MaskedAutoregressive
    from flowjax.masks import rank_based_mask
    from flowjax.wrappers import unwrap
    uniq = {}
    for c in cases:
        uniq[json.dumps(c["cfg"], sort_keys=True)] = c
    cases = list(uniq.values())
    if len(cases) <= budget:
        picked = cases
    else:       # one configuration from every (dim, cond_dim, depth) stratum first, the rest at random
        strata = {}
        for c in cases:
            strata.setdefault((c["cfg"]["dim"], c["cfg"]["cond"], c["cfg"]["depth"]), []).append(c)
        picked = [rng.choice(v) for _k, v in sorted(strata.items())][:budget]
        # widths at and just above the dimension: where a grouping of hidden units by rank can leave the top rank empty
        picked += [c for c in cases if c not in picked and c["cfg"]["dim"] >= 4 and c["cfg"]["dim"] <= c["cfg"]["width"] <= c["cfg"]["dim"] + 2
                   and c["cfg"]["depth"] == 1 and c["cfg"].get("npar", 1) == 1]
        rest = [c for c in cases if c not in picked]
        picked += rng.sample(rest, max(0, min(len(rest), budget - len(picked))))
    for ci, c in enumerate(picked):
        cfg = c["cfg"]
        dim, cond, width, depth, npar = cfg["dim"], cfg["cond"], cfg["width"], cfg["depth"], cfg["npar"]
        key = {"layer": "MaskedAutoregressive", **cfg}
        try:
            maf = MaskedAutoregressive(jr.key(ci), transformer=transformer_with(npar), dim=dim,
                                       cond_dim=None if cond == 0 else cond, nn_width=width, nn_depth=depth)
        except Exception as e:  # noqa: BLE001
            rep.violation({**key, "error": type(e).__name__}, f"constructor raised {type(e).__name__}: {e}")
            continue
        mlp = maf.masked_autoregressive_mlp
        # I: the masks stored in the Where wrappers, and the public helper, equal the spec's
        spec_masks = [np.asarray(m, dtype=bool) for m in c["masks"]]
        try:
            code_masks = [np.asarray(l.weight.cond, dtype=bool) for l in mlp.layers]
            same = len(code_masks) == len(spec_masks) and all(a.shape == b.shape and np.array_equal(a, b)
                                                              for a, b in zip(code_masks, spec_masks))
        except Exception:  # noqa: BLE001  another representation of the masks is not a violation
            same = False
        if not same:
            rep.note(f"model-drift Masks: layer masks of MaskedAutoregressive differ from the specification ({cfg})")
            rep.add("drift_masks")
        for li in range(len(spec_masks)):
            got = np.asarray(rank_based_mask(jnp.asarray(c["ranks"][li]), jnp.asarray(c["ranks"][li + 1]),
                                             eq=li != len(spec_masks) - 1))
            rep.count(1, ("rank_based_mask", tuple(c["ranks"][li]), tuple(c["ranks"][li + 1])))
            if not np.array_equal(got, spec_masks[li]):
                rep.violation({"helper": "rank_based_mask", "in": c["ranks"][li], "out": c["ranks"][li + 1]},
                              f"rank_based_mask({c['ranks'][li]}, {c['ranks'][li + 1]}, eq={li != len(spec_masks) - 1}) "
                              f"differs from the documented pattern")
        reach = np.asarray(c["reach"], dtype=bool)                 # (dim*npar, dim+cond) TLC's permitted paths
        allowed = np.zeros_like(reach)
        for o in range(dim * npar):
            allowed[o, : o // npar] = True
            allowed[o, dim:] = True
        nin = dim + cond

        def params_jac(model, inp):
            m = unwrap(model.masked_autoregressive_mlp)
            return np.asarray(jax.jacobian(m)(inp))

        # P (a): all-positive raw weights set AFTER construction, relu active on positive inputs
        pos = eqx.tree_at(lambda m: m.masked_autoregressive_mlp, maf,
                          set_raw(mlp, lambda shape, i: jnp.full(shape, 0.37 + 0.01 * i)))
        inp = jnp.asarray(0.5 + np.arange(nin) * 0.25)
        Jp = params_jac(pos, inp) != 0
        nontriv = ("maf", json.dumps(cfg, sort_keys=True)) if reach.any() else None
        rep.count(1, nontriv)
        rep.sample({"kind": "spec->code MaskedAutoregressive", "cfg": cfg, "tlc_reach": c["reach"],
                    "jacobian_nonzero": Jp.astype(int).tolist()}, 3)
        if (Jp & ~allowed).any():
            rep.violation({**key, "what": "forbidden dependency", "weights": "all-positive"},
                          f"MaskedAutoregressive{cfg}: transformer parameters of some coordinate depend on an input "
                          f"that is not before it: Jacobian pattern {Jp.astype(int).tolist()}", {"case": c})
        elif width >= dim and not np.array_equal(Jp, allowed):
            rep.violation({**key, "what": "permitted dependency missing", "weights": "all-positive"},
                          f"MaskedAutoregressive{cfg}: width >= dim but a permitted dependency is missing: "
                          f"{Jp.astype(int).tolist()} vs {allowed.astype(int).tolist()}", {"case": c})
        elif not np.array_equal(Jp, reach):
            rep.note(f"model-drift Masks: dependency pattern differs from the specification's reach for {cfg}")
            rep.add("drift_reach")
        # P (b): random weights of both signs, large magnitude, set after construction
        r2 = np.random.default_rng(rng.randrange(2**31))
        big = eqx.tree_at(lambda m: m.masked_autoregressive_mlp, maf,
                          set_raw(mlp, lambda shape, i: jnp.asarray(r2.normal(size=shape) * r2.choice([1.0, 30.0, 1e3]))))
        x = jnp.asarray(r2.normal(size=dim))
        cnd = None if cond == 0 else jnp.asarray(r2.normal(size=cond))
        inp = x if cnd is None else jnp.hstack([x, cnd])
        Jb = params_jac(big, inp) != 0
        rep.count(1, ("maf-random", json.dumps(cfg, sort_keys=True)))
        if (Jb & ~allowed).any():
            rep.violation({**key, "what": "forbidden dependency", "weights": "random"},
                          f"MaskedAutoregressive{cfg} with random weights: forbidden dependency, pattern "
                          f"{Jb.astype(int).tolist()}", {"case": c})
        # P (c): the bijection itself: output i depends only on inputs 0..i
        try:
            Jx = np.asarray(jax.jacobian(lambda v: big.transform(v, cnd))(x))
            if np.triu(Jx, 1).any():
                rep.violation({**key, "what": "transform not lower triangular"},
                              f"MaskedAutoregressive{cfg}: d transform / d x has entries above the diagonal: {Jx}")
            # sequential inverse, one public pass at a time: after pass r coordinates 0..r are final
            # (moderate weights: the staging of the inverse is structural, its conditioning is C01's business)
            mod = eqx.tree_at(lambda m: m.masked_autoregressive_mlp, maf,
                              set_raw(mlp, lambda shape, i: jnp.asarray(r2.normal(size=shape) * 0.5)))
            y = mod.transform(x, cnd)
            state = (y, 0)
            ub = unwrap(mod)                    # inv_scan_fn is public but, unlike the four methods, does not unwrap
            if not hasattr(ub, "inv_scan_fn"):  # the staging of the inverse is an implementation detail: C01 judges the result
                rep.note("model-drift Masks: MaskedAutoregressive has no inv_scan_fn; the pass-by-pass staging of the inverse is not observed")
                rep.add("drift_no_inv_scan_fn")
                continue
            for r in range(dim):
                state, _ = ub.inv_scan_fn(state, None, cnd)
                cur = np.asarray(state[0])
                okfinal = np.allclose(cur[: r + 1], np.asarray(x)[: r + 1], rtol=1e-6, atol=1e-6 * (1 + np.abs(np.asarray(x)[: r + 1]).max()))
                if not okfinal and np.all(np.isfinite(cur)):
                    rep.violation({**key, "what": "sequential inverse: prefix not final", "pass": r},
                                  f"MaskedAutoregressive{cfg}: after pass {r} of the inverse coordinates 0..{r} are "
                                  f"{cur[: r + 1]} but the preimage is {np.asarray(x)[: r + 1]}")
                    break
        except Exception as e:  # noqa: BLE001
            rep.violation({**key, "error": type(e).__name__, "what": "transform / inv_scan_fn"},
                          f"MaskedAutoregressive{cfg}: {type(e).__name__}: {e}")
        if ci % 50 == 49:
            jax.clear_caches()


def replay_flow_layers(rep: Report, rng: random.Random, count: int):
    """The masked autoregressive layers INSIDE the premade flow (flowjax.flows.masked_autoregressive_flow): the factory
    post-processes the layers it builds, so the structure has to survive that too, for weights that moved after
    construction.  Layer 0 is taken out of the stacked Scan with the public pytree structure."""
    from flowjax import distributions as ds
    from flowjax import flows
    from flowjax.wrappers import unwrap
    for i in range(count):
        dim = rng.randrange(2, 5)
        cond = rng.choice([None, 2])
        tr = rng.choice(["affine", "spline"])
        cfg = {"factory": "masked_autoregressive_flow", "dim": dim, "cond_dim": cond, "transformer": tr}
        try:
            kw = {}
            if tr == "spline":
                from flowjax.bijections import RationalQuadraticSpline
                kw["transformer"] = RationalQuadraticSpline(knots=3, interval=3)
            flow = flows.masked_autoregressive_flow(jr.key(i) if False else jr.PRNGKey(i), base_dist=ds.Normal(jnp.zeros(dim)), cond_dim=cond,
                                                    flow_layers=2, nn_width=rng.choice([dim, dim + 2]), nn_depth=rng.choice([1, 2]), **kw)
            scan = flow.bijection.bijection if type(flow.bijection).__name__ == "Invert" else flow.bijection
            layer0 = jax.tree_util.tree_map(lambda l: l[0] if eqx.is_array(l) else l, scan.bijection)
            maf = layer0.bijections[0] if type(layer0).__name__ == "Chain" else layer0
            mlp = maf.masked_autoregressive_mlp
            # every floating leaf of the conditioner set to a positive value AFTER construction
            leaves, td = jax.tree_util.tree_flatten(mlp)
            mlp_pos = jax.tree_util.tree_unflatten(td, [jnp.full(l.shape, 0.37 + 0.01 * j) if eqx.is_inexact_array(l) else l for j, l in enumerate(leaves)])
            net = unwrap(mlp_pos)
            nin = dim + (cond or 0)
            J = np.asarray(jax.jacobian(net)(jnp.asarray(0.5 + np.arange(nin) * 0.25))) != 0
        except Exception as e:  # noqa: BLE001
            rep.violation({"layer": "flow layer", **cfg, "error": type(e).__name__}, f"{cfg}: {type(e).__name__}: {str(e)[:200]}")
            continue
        npar = J.shape[0] // dim
        allowed = np.zeros_like(J)
        for o in range(J.shape[0]):
            allowed[o, : o // npar] = True
            allowed[o, dim:] = True
        rep.count(1, ("flow-layer", json.dumps(cfg, sort_keys=True), i))
        if (J & ~allowed).any():
            rep.violation({"layer": "masked autoregressive layer inside the flow factory", **cfg, "what": "forbidden dependency"},
                          f"masked_autoregressive_flow{cfg}: with the conditioner weights set after construction, the transformer "
                          f"parameters of some coordinate depend on an input that is not before it: {J.astype(int).tolist()}")


def replay_coupling(rep: Report, rng: random.Random, count: int):
    from flowjax.bijections import Coupling
    from flowjax.wrappers import unwrap
    for i in range(count):
        dim = rng.randrange(2, 6)
        u = rng.randrange(1, dim)
        cond = rng.choice([None, 1, 3])
        npar = rng.choice([1, 2, 3])
        cfg = {"dim": dim, "untransformed_dim": u, "cond_dim": cond, "npar": npar}
        try:
            cp = Coupling(jr.key(i), transformer=transformer_with(npar), untransformed_dim=u, dim=dim, cond_dim=cond,
                          nn_width=rng.choice([1, 4, 8]), nn_depth=rng.choice([0, 1, 2]))
            r2 = np.random.default_rng(rng.randrange(2**31))
            n = len(cp.conditioner.layers)
            get = lambda m: [m.conditioner.layers[j].weight for j in range(n)] + [m.conditioner.layers[j].bias for j in range(n)]  # noqa: E731
            cp = eqx.tree_at(get, cp, [jnp.asarray(r2.normal(size=o.shape)) for o in get(cp)])
            x = jnp.asarray(r2.normal(size=dim))
            c = None if cond is None else jnp.asarray(r2.normal(size=cond))
            y = cp.transform(x, c)
            J = np.asarray(jax.jacobian(lambda v: cp.transform(v, c))(x))
        except Exception as e:  # noqa: BLE001
            rep.violation({"layer": "Coupling", **cfg, "error": type(e).__name__}, f"Coupling{cfg}: {type(e).__name__}: {e}")
            continue
        rep.count(1, ("coupling", json.dumps(cfg, sort_keys=True)))
        if not np.array_equal(np.asarray(y)[:u], np.asarray(x)[:u]):
            rep.violation({"layer": "Coupling", **cfg, "what": "first block changed"},
                          f"Coupling{cfg}: first block {np.asarray(y)[:u]} != input {np.asarray(x)[:u]}")
        Jt = J[u:, u:]
        if (Jt - np.diag(np.diag(Jt)) != 0).any() or not np.array_equal(J[:u, :], np.eye(dim)[:u, :]):
            rep.violation({"layer": "Coupling", **cfg, "what": "forbidden dependency"},
                          f"Coupling{cfg}: a transformed coordinate depends on another transformed coordinate, or the "
                          f"first block is not the identity: J = {J}")
        if (np.diag(Jt) == 0).any():
            rep.violation({"layer": "Coupling", **cfg, "what": "coordinate does not depend on itself"},
                          f"Coupling{cfg}: zero on the diagonal of the transformed block: {np.diag(Jt)}")


def replay_block(rep: Report, rng: random.Random, count: int):
    from flowjax.bijections import BlockAutoregressiveNetwork
    for i in range(count):
        dim = rng.randrange(1, 6)
        depth = rng.randrange(0, 4)
        bd = rng.randrange(1, 4)
        cond = rng.choice([None, 2])
        cfg = {"dim": dim, "depth": depth, "block_dim": bd, "cond_dim": cond}
        try:
            ban = BlockAutoregressiveNetwork(jr.key(i), dim=dim, cond_dim=cond, depth=depth, block_dim=bd)
            r2 = np.random.default_rng(rng.randrange(2**31))
            leaves, treedef = jax.tree_util.tree_flatten(ban)
            leaves = [jnp.asarray(r2.normal(size=l.shape) * r2.choice([0.3, 1.0, 4.0])) if eqx.is_inexact_array(l) and l.ndim >= 1 else l
                      for l in leaves]
            ban = jax.tree_util.tree_unflatten(treedef, leaves)
            x = jnp.asarray(r2.normal(size=dim) * r2.choice([0.5, 2.0, 6.0]))
            c = None if cond is None else jnp.asarray(r2.normal(size=cond))
            J = np.asarray(jax.jacobian(lambda v: ban.transform(v, c))(x))
            _, ld = ban.transform_and_log_det(x, c)
        except Exception as e:  # noqa: BLE001
            rep.violation({"layer": "BlockAutoregressiveNetwork", **cfg, "error": type(e).__name__},
                          f"BlockAutoregressiveNetwork{cfg}: {type(e).__name__}: {e}")
            continue
        rep.count(1, ("block", json.dumps(cfg, sort_keys=True), i))
        if np.triu(J, 1).any():
            rep.violation({"layer": "BlockAutoregressiveNetwork", **cfg, "what": "upper triangle not zero"},
                          f"BlockAutoregressiveNetwork{cfg}: Jacobian has non-zero entries above the diagonal: {J}")
        elif not (np.diag(J) > 0).all():
            rep.violation({"layer": "BlockAutoregressiveNetwork", **cfg, "what": "diagonal not positive"},
                          f"BlockAutoregressiveNetwork{cfg}: Jacobian diagonal {np.diag(J)}")
        elif abs(float(ld) - np.log(np.diag(J)).sum()) > 1e-8 * (1 + abs(float(ld))):
            rep.violation({"layer": "BlockAutoregressiveNetwork", **cfg, "what": "log_det != sum log diag"},
                          f"BlockAutoregressiveNetwork{cfg}: log_det {float(ld)} vs sum log diag {np.log(np.diag(J)).sum()}")


def replay_block_masks(rep: Report, cases: list):
    from flowjax.masks import block_diag_mask, block_tril_mask
    seen = set()
    for c in cases:
        k = (c["rb"], c["cb"], c["n"], c["k"])
        if k in seen:
            continue
        seen.add(k)
        shape = (c["rb"], c["cb"])
        try:
            d = np.asarray(block_diag_mask(shape, c["n"]))
            t = np.asarray(block_tril_mask(shape, c["n"], c["k"]))
        except Exception as e:  # noqa: BLE001
            rep.violation({"helper": "block masks", "shape": shape, "n": c["n"], "k": c["k"], "error": type(e).__name__},
                          f"block mask helper raised {type(e).__name__}: {e}")
            continue
        rep.count(1, ("blockmask", k))
        if c["k"] == 0 and (d.shape != np.asarray(c["diag"]).shape or not np.array_equal(d, np.asarray(c["diag"], bool))):
            rep.violation({"helper": "block_diag_mask", "shape": shape, "n": c["n"]},
                          f"block_diag_mask({shape}, {c['n']}) = {d.astype(int).tolist()} differs from the documented pattern")
        if t.shape != np.asarray(c["tril"]).shape or not np.array_equal(t, np.asarray(c["tril"], bool)):
            rep.violation({"helper": "block_tril_mask", "shape": shape, "n": c["n"], "k": c["k"]},
                          f"block_tril_mask({shape}, {c['n']}, k={c['k']}) = {t.astype(int).tolist()} differs from the "
                          f"documented pattern {c['tril']}")


def main():
    ap = argparse.ArgumentParser()
    ap.add_argument("--replay")
    a = ap.parse_args()
    t = tier()
    thorough = t == "thorough"
    rep = Report(PID, t, "model_checking")
    rng = random.Random(rep.seed)
    if a.replay:
        payload = json.loads(open(a.replay).read())
        print(json.dumps(payload, indent=1)[:3000])
        if "case" in payload.get("replay", {}):
            replay_maf(rep, [payload["replay"]["case"]], rng, 1)
        rep.count(2, "replay-a"), rep.count(0, "replay-b")
        rep.set("states", 1), rep.set("transitions", 1), rep.set("traces_validated_against_impl", 0)
        return rep.finish()
    cases = model_check(rep, thorough)
    mcases = cases.get("MC_Masks_full.cfg") or cases.get("MC_Masks_small.cfg") or []
    replay_maf(rep, mcases, rng, 1260 if thorough else 50)
    replay_flow_layers(rep, rng, 40 if thorough else 10)
    replay_coupling(rep, rng, 120 if thorough else 25)
    replay_block(rep, rng, 100 if thorough else 20)
    replay_block_masks(rep, cases.get("MC_BlockMasks.cfg", []))
    rep.set("traces_validated_against_impl", 0)
    rep.set("rule", "one case per configuration (dim, cond_dim, width, depth, params per dim) printed by TLC, each judged "
                    "with all-positive and with random weights; non-trivial = TLC's reach set is non-empty; plus "
                    "coupling / block-network configurations and every block-mask shape")
    rep.assume("the all-positive weight assignment with a ReLU network on positive inputs makes every permitted path "
               "visible in the Jacobian; exact zeros in a Jacobian are structural")
    return rep.finish()


if __name__ == "__main__":
    sys.exit(main_guard(PID, main))
