"""C07 -- elementary bijections compute their documented functions.

design      TLC over exact rationals (Elementary.tla + Rat.tla): the rational-quadratic spline interpolates its knots,
            has derivative d_k at knot k, is the identity outside, increasing, and forward / inverse select the same
            piece at every knot and both interval ends; the bin lookup as written at the pinned commit
            (searchsorted - 1, unclamped) is refuted at the lower interval end (BinInRangeLiteral).
spec->code  every (configuration, point) state is an implementation test whose expected value TLC computed exactly:
            spline value and derivative at knots, ends, bin midpoints, quarter points, outside points; Affine with
            broadcasting and negative scales; TriangularAffine lower / upper; every permutation of sizes <= 4 (also as
            2x2 arrays); the branch of LeakyTanh at +-max_val and around it.  Where a transcendental primitive occurs
            (exp, softplus, tanh, the planar constraint) the expected value is the documented formula evaluated with
            NumPy in float64.
"""

from __future__ import annotations

import argparse
import json
import math
import random
import sys
from fractions import Fraction

import jax

jax.config.update("jax_enable_x64", True)

import equinox as eqx  # noqa: E402
import jax.numpy as jnp  # noqa: E402
import jax.random as jr  # noqa: E402
import numpy as np  # noqa: E402

from engine import tlc  # noqa: E402
from engine.report import Report, main_guard, tier  # noqa: E402

PID = "C07"


def fr(q):
    return Fraction(int(q[0]), int(q[1]))


def fl(q):
    return float(fr(q))


def close(a, b, tol=1e-12):
    return bool(np.all(np.abs(np.asarray(a, float) - np.asarray(b, float)) <= tol * (1 + np.abs(np.asarray(b, float)))))


def make_spline(cfg):
    """A real RationalQuadraticSpline whose knots / derivatives are exactly the configuration's."""
    from flowjax.bijections import RationalQuadraticSpline
    xs, ys, ds = ([fl(v) for v in cfg[k]] for k in ("xs", "ys", "ds"))
    sp = RationalQuadraticSpline(knots=len(xs) - 2, interval=(xs[0], xs[-1]))
    return eqx.tree_at(lambda s: (s.x_pos, s.y_pos, s.derivatives), sp,
                       (jnp.asarray(xs), jnp.asarray(ys), jnp.asarray(ds)))


def check_case(rep, c):
    kind, cfg, v = c["kind"], c["cfg"], c["v"]
    if kind == "spline":
        sp = make_spline(cfg)
        x = fl(c["x"])
        key = {"bijection": "RationalQuadraticSpline", "cfg": cfg, "x": c["x"]}
        try:
            y = float(sp.transform(jnp.asarray(x)))
            y2, ld = sp.transform_and_log_det(jnp.asarray(x))
        except Exception as e:  # noqa: BLE001
            rep.violation({**key, "error": type(e).__name__}, f"spline.transform({x}) raised {type(e).__name__}: {e}")
            return
        nontriv = ("spline", json.dumps(cfg), tuple(c["x"])) if v["inb"] else None
        rep.count(1, nontriv)
        if not close(y, fl(v["y"])) or not close(float(y2), fl(v["y"])):
            rep.violation({**key, "what": "value"},
                          f"RationalQuadraticSpline through knots x={cfg['xs']} y={cfg['ys']} d={cfg['ds']}: "
                          f"transform({c['x']}) = {y}; the interpolant of Durkan et al. eq. 4 gives {fr(v['y'])}", {"case": c})
        # derivative: at an interval end whose boundary derivative differs from 1 the two one-sided derivatives differ
        # (a kink); there either one-sided value is a correct report.  Everywhere else eq. 5 is demanded.
        at_kink = any(b["class"] == "kink" and b["at"] == c["x"] for b in v["boundary"])
        dy = math.exp(float(ld))
        if not (close(dy, fl(v["dy"]), 1e-10) or (at_kink and close(dy, 1.0, 1e-10))):
            rep.violation({**key, "what": "derivative"},
                          f"RationalQuadraticSpline {cfg}: exp(log_det) at {c['x']} = {dy}; eq. 5 gives {fr(v['dy'])}", {"case": c})
        return
    if kind == "affine":
        from flowjax.bijections import Affine
        loc, scale = [fl(q) for q in cfg["loc"]], [fl(q) for q in cfg["scale"]]
        x = jnp.asarray([fl(q) for q in c["x"]])
        key = {"bijection": "Affine", "cfg": cfg}
        rep.count(1, ("affine", json.dumps(cfg)))
        try:
            if min(scale) > 0:
                b = Affine(jnp.asarray(loc), jnp.asarray(scale))
                tol = 1e-12
            else:       # negative scales are reachable by replacing the parameter (documented); the constructor rejects them
                b = eqx.tree_at(lambda a: a.scale, Affine(jnp.asarray(loc), jnp.ones(len(loc))), jnp.asarray(scale))
                tol = 1e-15
            y = np.asarray(b.transform(x))
        except Exception as e:  # noqa: BLE001
            rep.violation({**key, "error": type(e).__name__}, f"Affine{cfg}: {type(e).__name__}: {e}")
            return
        if not close(y, [fl(q) for q in v["y"]], tol):
            rep.violation({**key, "what": "value"}, f"Affine(loc={loc}, scale={scale}).transform({np.asarray(x)}) = {y}; "
                                                    f"scale*x+loc = {[str(fr(q)) for q in v['y']]}", {"case": c})
        # broadcasting: scalar loc against vector scale and vice versa
        if len(loc) > 1 and min(scale) > 0:
            b2 = Affine(jnp.asarray(loc[0]), jnp.asarray(scale))
            y2 = np.asarray(b2.transform(x))
            if b2.shape != (len(scale),) or not close(y2, np.asarray(scale) * np.asarray(x) + loc[0]):
                rep.violation({**key, "what": "broadcast loc"}, f"Affine(loc={loc[0]}, scale={scale}): shape {b2.shape}, value {y2}")
        return
    if kind == "tri":
        from flowjax.bijections import TriangularAffine
        loc = [fl(q) for q in cfg["loc"]]
        m = np.array([[fl(q) for q in row] for row in cfg["m"]])
        x = jnp.asarray([fl(q) for q in c["x"]])
        key = {"bijection": "TriangularAffine", "lower": cfg["lower"], "cfg": cfg}
        rep.count(1, ("tri", json.dumps(cfg)))
        try:
            b = TriangularAffine(jnp.asarray(loc), jnp.asarray(m), lower=bool(cfg["lower"]))
            y = np.asarray(b.transform(x))
            back = np.asarray(b.inverse(jnp.asarray(y)))
        except Exception as e:  # noqa: BLE001
            rep.violation({**key, "error": type(e).__name__}, f"TriangularAffine{cfg}: {type(e).__name__}: {e}")
            return
        if not close(y, [fl(q) for q in v["y"]]):
            rep.violation({**key, "what": "value"},
                          f"TriangularAffine(loc={loc}, arr={m.tolist()}, lower={cfg['lower']}).transform = {y}; A x + b with "
                          f"the requested triangle gives {[str(fr(q)) for q in v['y']]}", {"case": c})
        if not close(back, np.asarray(x), 1e-10):
            rep.violation({**key, "what": "inverse"}, f"TriangularAffine{cfg}: inverse(transform(x)) = {back} != {np.asarray(x)}")
        return
    if kind == "perm":
        from flowjax.bijections import Permute
        f = [int(i) for i in cfg]
        xs = np.array([fl(q) for q in c["x"]])
        exp = np.array([fl(q) for q in v["y"]])
        shapes = [(len(f),)] + ([(2, 2)] if len(f) == 4 else [])
        for shp in shapes:
            key = {"bijection": "Permute", "perm": f, "shape": shp}
            rep.count(1, ("perm", tuple(f), shp) if f != sorted(f) else None)
            try:
                b = Permute(np.array(f).reshape(shp))
                y = np.asarray(b.transform(jnp.asarray(xs.reshape(shp))))
                back = np.asarray(b.inverse(jnp.asarray(y)))
            except Exception as e:  # noqa: BLE001
                rep.violation({**key, "error": type(e).__name__}, f"Permute({f}): {type(e).__name__}: {e}")
                continue
            if y.shape != shp or not np.array_equal(y.ravel(), exp):
                rep.violation({**key, "what": "value"},
                              f"Permute({np.array(f).reshape(shp).tolist()}).transform({xs.reshape(shp).tolist()}) = "
                              f"{y.tolist()}; the stated reordering (C order) gives {exp.reshape(shp).tolist()}", {"case": c})
            if not np.array_equal(back.ravel(), xs):
                rep.violation({**key, "what": "inverse"}, f"Permute({f}): inverse(transform(x)) != x")
        return
    if kind == "leaky":
        from flowjax.bijections import LeakyTanh
        m, x = fl(cfg), fl(c["x"])
        key = {"bijection": "LeakyTanh", "max_val": cfg, "x": c["x"]}
        rep.count(1, ("leaky", tuple(cfg), tuple(c["x"])))
        try:
            y = float(LeakyTanh(m).transform(jnp.asarray(x)))
        except Exception as e:  # noqa: BLE001
            rep.violation({**key, "error": type(e).__name__}, f"LeakyTanh({m}).transform({x}): {type(e).__name__}: {e}")
            return
        g = math.cosh(m) ** -2                       # = 1 - tanh(m)^2 without its cancellation
        exp = math.copysign(1, x) * (math.tanh(m) + g * (abs(x) - m)) if v["branch"] == "linear" else math.tanh(x)
        if not close(y, exp, 1e-13):
            rep.violation({**key, "what": "value", "branch": v["branch"]},
                          f"LeakyTanh({m}).transform({x}) = {y}; the {v['branch']} piece gives {exp}", {"case": c})


def transcendental_leaves(rep: Report, rng: random.Random):
    """exp, softplus, tanh, Loc, Scale, Flip, AdditiveCondition, Planar: documented formula evaluated with NumPy."""
    from flowjax import bijections as bj
    pts = np.array([-30.0, -3.5, -1.0, -1e-9, 0.0, 1e-9, 0.25, 1.0, 3.0, 17.0, 40.0])
    table = [("Exp", bj.Exp(pts.shape), np.exp), ("SoftPlus", bj.SoftPlus(pts.shape), lambda t: np.logaddexp(t, 0.0)),
             ("Tanh", bj.Tanh(pts.shape), np.tanh), ("Identity", bj.Identity(pts.shape), lambda t: t),
             ("Flip", bj.Flip(pts.shape), lambda t: t[::-1]),
             ("Loc", bj.Loc(jnp.asarray(pts[::-1] * 0.5)), lambda t: t + pts[::-1] * 0.5),
             ("Scale", bj.Scale(jnp.asarray(np.abs(pts) + 0.5)), lambda t: t * (np.abs(pts) + 0.5))]
    for name, b, ref in table:
        rep.count(1, ("leaf", name))
        try:
            y = np.asarray(b.transform(jnp.asarray(pts)))
        except Exception as e:  # noqa: BLE001
            rep.violation({"bijection": name, "error": type(e).__name__}, f"{name}.transform: {type(e).__name__}: {e}")
            continue
        if not close(y, ref(pts), 1e-13):
            rep.violation({"bijection": name, "what": "value"}, f"{name}.transform({pts.tolist()}) = {y.tolist()}; documented: {ref(pts).tolist()}")
    flip2 = np.asarray(bj.Flip((2, 3)).transform(jnp.arange(6.0).reshape(2, 3)))
    if not np.array_equal(flip2, np.arange(6.0).reshape(2, 3)[::-1, ::-1]):
        rep.violation({"bijection": "Flip", "shape": (2, 3)}, f"Flip((2,3)).transform = {flip2.tolist()}")
    # Permute of any rank: "elements 0..size-1 representing the new order based on the flattened array (C order)"
    for i in range(12):
        rs = np.random.default_rng(rng.randrange(2**31))
        shp = [(2, 3), (3, 2), (2, 2, 2), (1, 4), (6,), (2, 1, 3)][i % 6]
        n = int(np.prod(shp))
        perm = rs.permutation(n)
        x = rs.normal(size=shp)
        rep.count(1, ("permute-rank", shp, i))
        try:
            b = bj.Permute(perm.reshape(shp))
            y = np.asarray(b.transform(jnp.asarray(x)))
            back = np.asarray(b.inverse(jnp.asarray(y)))
        except Exception as e:  # noqa: BLE001
            rep.violation({"bijection": "Permute", "shape": shp, "error": type(e).__name__}, f"Permute{shp}: {type(e).__name__}: {e}")
            continue
        if not np.array_equal(y, x.ravel()[perm].reshape(shp)) or not np.array_equal(back, x):
            rep.violation({"bijection": "Permute", "shape": shp, "what": "value"},
                          f"Permute({perm.reshape(shp).tolist()}).transform({x.tolist()}) = {y.tolist()}; the stated reordering gives {x.ravel()[perm].reshape(shp).tolist()}")
    # AdditiveCondition: x + f(condition)
    W = np.array([[1.0, -2.0], [0.5, 3.0], [4.0, 0.25]])
    ac = bj.AdditiveCondition(lambda cnd: jnp.asarray(W) @ cnd, (3,), (2,))
    x, cnd = np.array([0.3, -1.2, 2.0]), np.array([0.7, -0.4])
    rep.count(1, ("leaf", "AdditiveCondition"))
    if not close(np.asarray(ac.transform(jnp.asarray(x), jnp.asarray(cnd))), x + W @ cnd, 1e-14):
        rep.violation({"bijection": "AdditiveCondition"}, "AdditiveCondition.transform != x + f(condition)")
    # Planar: x + u_hat * act(w.x + b), u_hat the constrained act_scale (public method of the unconditional layer)
    for i in range(12):
        rs = np.random.default_rng(rng.randrange(2**31))
        dim = int(rs.integers(1, 5))
        slope = [None, 0.1, 0.5][i % 3]
        cond = [None, 2][i % 2]
        pl = bj.Planar(jr.PRNGKey(i), dim=dim, cond_dim=cond, negative_slope=slope, width_size=4, depth=1)
        leaves, td = jax.tree_util.tree_flatten(pl)
        pl = jax.tree_util.tree_unflatten(td, [jnp.asarray(rs.normal(size=l.shape) * 1.5) if eqx.is_inexact_array(l) else l for l in leaves])
        x = rs.normal(size=dim) * 2
        cnd = None if cond is None else jnp.asarray(rs.normal(size=cond))
        rep.count(1, ("planar", dim, slope, cond, i))
        try:
            y = np.asarray(pl.transform(jnp.asarray(x), cnd))
            inner = pl.get_planar(cnd) if hasattr(pl, "get_planar") else None
            if inner is None:
                continue
            from flowjax.wrappers import unwrap
            inner = unwrap(inner)
            w, b0, uhat = np.asarray(inner.weight), float(inner.bias), np.asarray(inner.get_act_scale())
            z = w @ x + b0
            act = np.tanh(z) if slope is None else (z if z >= 0 else slope * z)
            if not close(y, x + uhat * act, 1e-12):
                rep.violation({"bijection": "Planar", "dim": dim, "slope": slope, "cond": cond},
                              f"Planar.transform = {y}; x + u*act(w.x+b) = {x + uhat * act}")
        except Exception as e:  # noqa: BLE001
            rep.violation({"bijection": "Planar", "error": type(e).__name__}, f"Planar: {type(e).__name__}: {e}")


def spline_parameterisation(rep: Report, rng: random.Random, count: int):
    """Identity at initialisation on the whole boundary set; raw parameters -> knots as documented (softmax widths with
    the softmax_adjust floor, first width halved, cumulative sum, padded with the interval ends; softplus + min_derivative)."""
    from flowjax.bijections import RationalQuadraticSpline
    from flowjax.wrappers import unwrap
    for i in range(count):
        rs = np.random.default_rng(rng.randrange(2**31))
        knots = int(rs.integers(1, 9))
        interval = [3, 1.5, (-2.0, 3.0), (0.5, 4.0), (-7.0, -1.0)][i % 5]
        md = [1e-3, 0.05, 0.5][i % 3]
        adj = [1e-2, 0.0, 1.0][(i // 3) % 3]
        lo, hi = (interval if isinstance(interval, tuple) else (-interval, interval))
        key = {"bijection": "RationalQuadraticSpline", "knots": knots, "interval": [lo, hi], "min_derivative": md}
        try:
            sp = RationalQuadraticSpline(knots=knots, interval=interval, min_derivative=md, softmax_adjust=adj)
            u = unwrap(sp)
            pts = np.concatenate([[lo, hi, lo - 1, hi + 1, np.nextafter(lo, -np.inf), np.nextafter(hi, np.inf)],
                                  np.asarray(u.x_pos), np.linspace(lo, hi, 7)])
            ys = np.array([float(sp.transform(jnp.asarray(p))) for p in pts])
        except Exception as e:  # noqa: BLE001
            rep.violation({**key, "error": type(e).__name__}, f"RationalQuadraticSpline{key}: {type(e).__name__}: {e}")
            continue
        rep.count(1, ("spline-init", knots, str(interval), md, adj))
        if not close(ys, pts, 1e-12):
            rep.violation({**key, "what": "not the identity at initialisation"},
                          f"RationalQuadraticSpline{key} at initialisation maps {pts.tolist()} to {ys.tolist()}")
        raw_x = rs.normal(size=knots) * 2
        raw_d = rs.normal(size=knots + 2) * 2
        sp2 = eqx.tree_at(lambda s: (s.x_pos.args, s.derivatives.args), sp, ((jnp.asarray(raw_x),), (jnp.asarray(raw_d),)))
        u2 = unwrap(sp2)
        w = np.exp(raw_x - raw_x.max())
        w = w / w.sum()
        w = (w + adj / knots) / (1 + adj)
        w[0] = w[0] / 2
        exp_pos = np.concatenate([[lo], lo + (hi - lo) * np.cumsum(w), [hi]])
        exp_d = np.logaddexp(raw_d, 0.0) + md
        if not close(np.asarray(u2.x_pos), exp_pos, 1e-12) or not close(np.asarray(u2.derivatives), exp_d, 1e-12):
            rep.violation({**key, "what": "raw -> knots parameterisation"},
                          f"RationalQuadraticSpline{key}: knots {np.asarray(u2.x_pos).tolist()} / derivatives "
                          f"{np.asarray(u2.derivatives).tolist()} differ from the documented parameterisation "
                          f"{exp_pos.tolist()} / {exp_d.tolist()}")


def main():
    ap = argparse.ArgumentParser()
    ap.add_argument("--replay")
    a = ap.parse_args()
    t = tier()
    thorough = t == "thorough"
    rep = Report(PID, t, "model_checking")
    rng = random.Random(rep.seed)
    if a.replay:
        payload = json.loads(open(a.replay).read())
        print(json.dumps(payload, indent=1)[:3000])
        if "case" in payload.get("replay", {}):
            check_case(rep, payload["replay"]["case"])
        rep.count(2, "replay-a"), rep.count(0, "replay-b")
        rep.set("states", 1), rep.set("transitions", 1), rep.set("traces_validated_against_impl", 0)
        return rep.finish()
    per = {}
    r = tlc.run("MC_Elementary", "MC_Elementary_fixed.cfg", workers=8, timeout=900, coverage=False)
    per["MC_Elementary_fixed.cfg"] = {"distinct": r.distinct, "generated": r.generated, "result": r.violated or "no error", "cases": len(r.cases)}
    lit = tlc.run("MC_Elementary", "MC_Elementary_literal.cfg", workers=8, timeout=900, coverage=False)
    per["MC_Elementary_literal.cfg"] = {"result": lit.violated or "no error"}
    rep.set("tlc_runs", per)
    if r.violated:
        rep.machinery_failure(f"the specification itself violates {r.violated}")
        return rep.finish()
    if lit.violated != "BinInRangeLiteral":
        rep.machinery_failure(f"the unclamped bin lookup was expected to be refuted (BinInRangeLiteral), got {lit.violated}")
    rep.add("states", r.distinct)
    rep.add("transitions", r.generated)
    seen = set()
    for c in r.cases:
        k = json.dumps([c["kind"], c["cfg"], c["x"]])
        if k in seen:
            continue
        seen.add(k)
        rep.sample({"kind": "spec->code", "tlc_case": c}, 4)
        check_case(rep, c)
    transcendental_leaves(rep, rng)
    spline_parameterisation(rep, rng, 90 if thorough else 30)
    rep.set("traces_validated_against_impl", 0)
    rep.set("exhaustive", True)
    rep.set("rule", "one case per (configuration, point) state of the TLC run; non-trivial = the point lies inside the spline "
                    "interval / the permutation is not the identity; plus documented-formula cases for the transcendental leaves")
    rep.assume("exp, softplus, tanh and log are evaluated with NumPy / math in float64 (trusted base)")
    rep.assume("spline knots and derivatives are installed exactly with eqx.tree_at on x_pos, y_pos, derivatives")
    return rep.finish()


if __name__ == "__main__":
    sys.exit(main_guard(PID, main))
