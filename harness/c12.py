"""C12 -- unwrapping applies every wrapper exactly once; frozen parameters never move.

design      TLC, exhaustive over every wrapper tree up to MaxNodes nodes (Unwrap.tla): ExactlyOnce, InnerFirst (every
            order the recursion may take), NoWrapperLeft, FrozenBitIdentical under arbitrary optimiser steps.
spec->code  every tree TLC prints is built from the real wrapper classes (NonTrainable, BijectionReparam, Where,
            WeightNormalization, Lambda; wrappers constructed under filter_vmap when the spec says batched) and
            flowjax.wrappers.unwrap must give, leaf by leaf, the value of TLC's term (evaluated with NumPy primitives);
            unwrap is idempotent and leaves no wrapper; the trainable / frozen partition is TLC's.
code->spec  both real training loops are run on those pytrees (counting optimiser, SGD with an absurd learning rate,
            Adam; 0-3 steps) and on real flows with frozen subsets; the per-leaf digests recorded at every loss call
            and at return are validated by Trace_Unwrap (frozen and non-floating leaves never change, zero gradient).
method transparency: every public method of real bijections / distributions gives bit-identical results on m and on
            unwrap(m).
"""

from __future__ import annotations

import argparse
import hashlib
import json
import random
import re
import sys

import jax

jax.config.update("jax_enable_x64", True)

import equinox as eqx  # noqa: E402
import jax.numpy as jnp  # noqa: E402
import jax.random as jr  # noqa: E402
import numpy as np  # noqa: E402
import optax  # noqa: E402

from engine import tlc, tracecheck  # noqa: E402
from engine.report import Report, main_guard, tier  # noqa: E402

PID = "C12"
P_GUARDS = ["FrozenBitIdentical", "OnlyTrainableChange", "ZeroGradientOnFrozen"]


# ---------------------------------------------------------------------------------------------------------------
# spec tree -> real pytree
def leaf_value(i: int, batch: int = 0):
    base = (np.arange(6, dtype=float).reshape(2, 3) * 0.1 + 0.3 + 0.17 * i) * (1 if i % 2 else -1) + 0.05 * i
    if batch:
        return np.stack([base + 0.013 * (b + 1) * (i + 1) for b in range(batch)])
    return base


def mask_of(i: int):
    return ((np.arange(6) + i) % 2 == 0).reshape(2, 3)


def _neg(a):
    return -a


def _pair(a, b):
    return (a * 2.0, b)


def make_bij(f):
    from flowjax.bijections import Chain, Exp, Loc, SoftPlus, Tanh
    from flowjax.wrappers import non_trainable
    return {"EXP": Exp, "SOFTPLUS": SoftPlus, "TANH": Tanh,
            "SPLOC": lambda: Chain([SoftPlus(), non_trainable(Loc(jnp.asarray(0.5)))])}[f]()


def build(nodes, i, vals):
    """vals: id -> array for the arr / int leaves (already carrying a batch axis when under a batched wrapper)."""
    from flowjax.wrappers import BijectionReparam, Lambda, NonTrainable, WeightNormalization, Where
    n = nodes[i - 1]
    k = n["k"]
    sub = lambda j: build(nodes, n["ch"][j], vals)  # noqa: E731
    if k in ("arr", "int"):
        return vals[i]
    if k == "node":
        return tuple(sub(j) for j in range(len(n["ch"])))
    if k == "nt":
        return NonTrainable(sub(0))
    if k == "rep":
        return BijectionReparam(sub(0), make_bij(n["f"]), invert_on_init=False)
    if k == "where":
        return Where(jnp.asarray(mask_of(i)), sub(0), sub(1))
    if k == "wn":
        return WeightNormalization(sub(0))
    if k == "lam":
        return Lambda(_neg, sub(0)) if n["f"] == "NEG" else Lambda(_pair, sub(0), sub(1))
    raise ValueError(k)


def descendants(nodes, i):
    out = {i}
    for c in nodes[i - 1]["ch"]:
        out |= descendants(nodes, c)
    return out


def build_tree(nodes, root):
    """Real pytree for the spec tree; batched wrappers are constructed under eqx.filter_vmap (nested for two levels)."""
    from flowjax.wrappers import BijectionReparam, Lambda, NonTrainable, WeightNormalization, Where
    levels = {}          # leaf id -> batch sizes of the batched wrappers above it, outermost first

    def walk(i, prefix):
        n = nodes[i - 1]
        pre = prefix + ([n["b"]] if n["b"] > 0 else [])
        if n["k"] in ("arr", "int"):
            levels[i] = pre
        for c in n["ch"]:
            walk(c, pre)

    walk(root, [])
    vals = {}
    for i, pre in levels.items():
        if nodes[i - 1]["k"] == "arr":
            v = leaf_value(i, 0)
            for depth, b in enumerate(reversed(pre)):
                v = np.stack([v + 0.013 * (j + 1) * (i + 1) * (depth + 1) for j in range(b)])
            vals[i] = jnp.asarray(v)
        else:
            v = np.arange(3) + i
            for b in reversed(pre):
                v = np.stack([v for _ in range(b)])
            vals[i] = jnp.asarray(v)

    def B(i, cur, ignore_b=False):
        n = nodes[i - 1]
        if n["b"] > 0 and not ignore_b:
            ids = sorted(d for d in descendants(nodes, i) if nodes[d - 1]["k"] in ("arr", "int"))
            return eqx.filter_vmap(lambda sv: B(i, {**cur, **sv}, True))({d: cur[d] for d in ids})
        k = n["k"]
        if k in ("arr", "int"):
            return cur[i]
        ch = [B(c, cur) for c in n["ch"]]
        if k == "node":
            return tuple(ch)
        if k == "nt":
            return NonTrainable(ch[0])
        if k == "rep":
            return BijectionReparam(ch[0], make_bij(n["f"]), invert_on_init=False)
        if k == "where":
            return Where(jnp.asarray(mask_of(i)), ch[0], ch[1])
        if k == "wn":
            return WeightNormalization(ch[0])
        return Lambda(_neg, ch[0]) if n["f"] == "NEG" else Lambda(_pair, ch[0], ch[1])

    return B(root, vals), vals


# ---------------------------------------------------------------------------------------------------------------
# TLC's term -> NumPy value
TOKEN = re.compile(r"(MAP\d+\{|[A-Z]+\d*\[|a\d+|i\d+|\(|\)|\]|\}|,)")


def softplus(x):
    return np.logaddexp(x, 0.0)


def eval_term(term: str, vals: dict):
    toks = TOKEN.findall(term)
    if "".join(toks) != term:
        raise ValueError(f"cannot tokenise term {term}")
    pos = [0]

    def parse():
        t = toks[pos[0]]
        pos[0] += 1
        if t[0] == "a" or t[0] == "i" and t[1:].isdigit():
            return np.asarray(vals[int(t[1:])])
        if t == "(":
            items = [parse()]
            while toks[pos[0]] == ",":
                pos[0] += 1
                items.append(parse())
            assert toks[pos[0]] == ")"
            pos[0] += 1
            return tuple(items)
        if t.startswith("MAP"):
            v = parse()
            assert toks[pos[0]] == "}"
            pos[0] += 1
            return v                       # element-wise primitives: the batched value is the stack of the slices
        op = t[:-1]
        args = [parse()]
        while toks[pos[0]] == ",":
            pos[0] += 1
            args.append(parse())
        assert toks[pos[0]] == "]"
        pos[0] += 1
        m = re.match(r"([A-Z]+)(\d*)", op)
        name, nid = m.group(1), m.group(2)
        if name == "SG":
            return args[0]
        if name == "EXP":
            return np.exp(args[0])
        if name == "SOFTPLUS":
            return softplus(args[0])
        if name == "TANH":
            return np.tanh(args[0])
        if name == "SPLOC":
            return softplus(args[0]) + 0.5
        if name == "NEG":
            return -args[0]
        if name == "PAIR":
            return (args[0] * 2.0, args[1])
        if name == "SEL":
            return np.where(mask_of(int(nid)), args[0], args[1])
        if name == "WN":
            w = args[0]
            norm = np.linalg.norm(w, axis=-1, keepdims=True)
            return (1.0 / norm) * w / norm          # scale is initialised to 1/||w|| (softplus-reparameterised)
        raise ValueError(op)

    return parse()


def flat(v):
    if isinstance(v, tuple):
        out = []
        for x in v:
            out += flat(x)
        return out
    return [np.asarray(v)]


# ---------------------------------------------------------------------------------------------------------------
def dig(a) -> str:
    return hashlib.sha1(np.asarray(a).tobytes() + str(np.asarray(a).dtype).encode()).hexdigest()


def identify_leaves(tree, nodes, root, vals):
    """Map every array leaf of the real pytree to a spec id (model leaves by value; unmodelled leaves get ids > n)."""
    leaves = jax.tree_util.tree_leaves(tree)
    byval = {dig(v): i for i, v in vals.items()}
    ids, nxt = [], len(nodes) + 1
    for lf in leaves:
        d = dig(lf)
        if d in byval:
            ids.append(byval[d])
        else:
            ids.append(nxt)
            nxt += 1
    return leaves, ids


def frozen_paths(tree):
    """ids of leaves of the real tree that sit under a NonTrainable (harness-side, for the unmodelled leaves only)."""
    from flowjax.wrappers import NonTrainable
    marked = jax.tree_util.tree_map(lambda x: x, tree, is_leaf=lambda x: isinstance(x, NonTrainable))
    flat_nt = jax.tree_util.tree_leaves(marked, is_leaf=lambda x: isinstance(x, NonTrainable))
    out = []
    for x in flat_nt:
        n = len(jax.tree_util.tree_leaves(x))
        out += [isinstance(x, NonTrainable)] * n
    return out


def model_check(rep: Report, thorough: bool):
    cfg = "MC_Unwrap_full.cfg" if thorough else "MC_Unwrap_small.cfg"
    r = tlc.run("Unwrap", cfg, workers=16, timeout=3000)
    info = {"distinct": r.distinct, "generated": r.generated, "depth": r.depth, "wall_s": round(r.wall_s, 1),
            "result": r.violated or "no error", "trees": len(r.cases),
            "actions": {a: v[0] for a, v in r.actions.items() if a[0].isupper() and a not in ("Init", "Emit")}}
    rep.set("tlc_runs", {cfg: info})
    if r.violated:
        rep.machinery_failure(f"the specification itself violates {r.violated} under {cfg}")
        return []
    if any(v == 0 for v in info["actions"].values()):
        rep.machinery_failure(f"vacuous run: {info['actions']}")
    rep.add("states", r.distinct)
    rep.add("transitions", r.generated)
    return r.cases


class Sess:
    """Shared loss / optimiser objects so that the jitted training step is compiled once per tree structure."""

    def __init__(self):
        self.log = []

        def loss(params, static, *args, key=None):
            from flowjax.wrappers import unwrap
            tree = unwrap(eqx.combine(params, static))
            tot = 0.0
            for j, lf in enumerate(jax.tree_util.tree_leaves(tree)):
                if eqx.is_inexact_array(lf):
                    tot = tot + jnp.sum(lf * (1.0 + 0.1 * j))
            return tot

        self.loss = loss

        def init(params):
            return ()

        def update(grads, state, params=None):
            return jax.tree_util.tree_map(lambda g: jnp.ones_like(g), grads), state

        self.opts = {"counting": optax.GradientTransformation(init, update), "sgd1e3": optax.sgd(1e3),
                     "adam": optax.adam(0.1)}


def replay_trees(rep: Report, cases: list, rng: random.Random, budget: int, sess: Sess, traces: list):
    from flowjax.train import fit_to_data, fit_to_variational_target
    from flowjax.utils import get_ravelled_pytree_constructor
    from flowjax.wrappers import AbstractUnwrappable, unwrap
    picked = cases if len(cases) <= budget else rng.sample(cases, budget)
    for ci, c in enumerate(picked):
        nodes, root = c["nodes"], c["root"]
        key = {"tree": c["term"]}
        try:
            tree, vals = build_tree(nodes, root)
        except Exception as e:  # noqa: BLE001  building uses the real constructors: a failure here is a harness limit
            rep.note(f"unbuildable tree skipped ({type(e).__name__}): {c['term']}")
            rep.add("skipped_unbuildable")
            continue
        try:
            u = unwrap(tree)
            uu = unwrap(u)
        except Exception as e:  # noqa: BLE001
            rep.violation({**key, "error": type(e).__name__}, f"unwrap raised {type(e).__name__}: {e} on {c['term']}",
                          {"case": c})
            continue
        expected = flat(eval_term(c["term"], vals))
        got = [np.asarray(x) for x in jax.tree_util.tree_leaves(u)]
        nwrap = len(c["wrappers"])
        rep.count(1, ("tree", c["term"]) if nwrap >= 2 else None)
        rep.sample({"kind": "spec->code unwrap", "tlc_case": c}, 3)
        ok = len(expected) == len(got) and all(a.shape == b.shape and np.allclose(a, b, rtol=1e-12, atol=1e-12)
                                               for a, b in zip(expected, got))
        if not ok:
            rep.violation({**key, "what": "unwrapped value"},
                          f"unwrap of {c['term']}: values differ from the specification's term "
                          f"(a wrapper applied twice, not at all, or in the wrong order): got "
                          f"{[g.ravel()[:3].tolist() for g in got]} expected {[e.ravel()[:3].tolist() for e in expected]}",
                          {"case": c})
        left = [x for x in jax.tree_util.tree_leaves(u, is_leaf=lambda x: isinstance(x, AbstractUnwrappable))
                if isinstance(x, AbstractUnwrappable)]
        if left:
            rep.violation({**key, "what": "wrapper left"}, f"unwrap of {c['term']} left {len(left)} wrapper nodes")
        same = all(np.array_equal(np.asarray(a), np.asarray(b)) for a, b in
                   zip(jax.tree_util.tree_leaves(u), jax.tree_util.tree_leaves(uu)))
        if not same:
            rep.violation({**key, "what": "not idempotent"}, f"unwrap(unwrap(t)) != unwrap(t) for {c['term']}")

        # ---- partition and training --------------------------------------------------------------------------
        leaves, ids = identify_leaves(tree, nodes, root, vals)
        under_nt = frozen_paths(tree)
        n = len(nodes)
        extra_tr = [i for i, f in zip(ids, under_nt) if i > n and not f and eqx.is_inexact_array(leaves[ids.index(i)])]
        extra_fr = [i for i, f, lf in zip(ids, under_nt, leaves) if i > n and (f or not eqx.is_inexact_array(lf))]
        n_train_scalars = sum(int(np.size(lf)) for lf, i in zip(leaves, ids)
                              if (i in c["trainable"]) or (i in extra_tr))
        try:
            ctor, npar = get_ravelled_pytree_constructor(tree)
            # "calling the constructor at the zero vector returns the initial pytree"; a unit shift moves exactly the
            # trainable leaves (this is how coupling / autoregressive conditioners parameterise a transformer)
            if npar == n_train_scalars:
                z0 = jax.tree_util.tree_leaves(ctor(jnp.zeros(npar)))
                z1 = jax.tree_util.tree_leaves(ctor(jnp.ones(npar)))
                same0 = all(np.array_equal(np.asarray(a), np.asarray(b)) for a, b in zip(z0, leaves))
                moved = {i for a, b, i in zip(z1, leaves, ids) if not np.array_equal(np.asarray(a), np.asarray(b))}
                want = set(c["trainable"]) | set(extra_tr)
                if not same0 or moved != want:
                    rep.violation({**key, "what": "ravelled constructor"},
                                  f"get_ravelled_pytree_constructor on {c['term']}: zero vector reproduces the tree: {same0}; a unit "
                                  f"shift moved leaves {sorted(moved)}, the trainable leaves are {sorted(want)}", {"case": c})
            if npar != n_train_scalars:
                rep.violation({**key, "what": "conditioner parameter count"},
                              f"get_ravelled_pytree_constructor counts {npar} parameters for {c['term']}, the "
                              f"trainable leaves have {n_train_scalars} scalars", {"case": c})
        except Exception as e:  # noqa: BLE001
            rep.violation({**key, "error": type(e).__name__, "what": "get_ravelled_pytree_constructor"}, str(e))
        if ci % 3:
            continue
        oname = ["counting", "sgd1e3", "adam"][(ci // 3) % 3]
        steps = (ci // 9) % 4
        use_data = bool((ci // 3) % 2)
        log_d = []

        def obs(tr):
            log_d.append([dig(x) for x in jax.tree_util.tree_leaves(tr)])

        base_loss = sess.loss

        def loss(params, static, *args, key=None):
            jax.debug.callback(obs, eqx.combine(params, static), ordered=True)
            return base_loss(params, static, *args, key=key)

        try:
            params, static = eqx.partition(tree, eqx.is_inexact_array)
            g = eqx.filter_grad(lambda p: sess.loss(p, static))(params)
            gl = jax.tree_util.tree_leaves(eqx.combine(g, jax.tree_util.tree_map(lambda x: None if eqx.is_inexact_array(x) else x, tree)))
            if use_data:
                out, _ = fit_to_data(jr.key(ci), tree, jnp.zeros((4, 1)), loss_fn=loss, max_epochs=steps, batch_size=2,
                                     val_prop=0.5, optimizer=sess.opts[oname], show_progress=False, max_patience=9,
                                     return_best=bool(ci % 2))
            else:
                out, _ = fit_to_variational_target(jr.key(ci), tree, loss, steps=steps, optimizer=sess.opts[oname],
                                                   show_progress=False, return_best=bool(ci % 2))
            jax.effects_barrier()
        except Exception as e:  # noqa: BLE001
            rep.violation({**key, "error": type(e).__name__, "what": "training loop"},
                          f"training {c['term']} with {oname} raised {type(e).__name__}: {e}", {"case": c})
            continue
        d0 = [dig(x) for x in leaves]
        prev, ev = d0, []
        for d in log_d:
            ev.append({"k": "step", "changed": sorted({ids[j] for j in range(len(ids)) if d[j] != prev[j]})})
            prev = d
        dout = [dig(x) for x in jax.tree_util.tree_leaves(out)]
        full_g = jax.tree_util.tree_leaves(g)
        inex = [j for j, lf in enumerate(leaves) if eqx.is_inexact_array(lf)]
        gnz = sorted({ids[j] for j, gv in zip(inex, full_g) if np.any(np.asarray(gv) != 0)})
        traces.append({
            "cfg": {"nodes": nodes, "root": root, "extra_trainable": sorted(extra_tr), "extra_frozen": sorted(extra_fr),
                    "counting": oname == "counting" and False, "opt": oname, "steps": steps, "loop": "data" if use_data else "variational",
                    "term": c["term"]},
            "ev": ev,
            "ret": {"changed": sorted({ids[j] for j in range(len(ids)) if dout[j] != d0[j]}), "grad_nonzero": gnz},
        })
        del gl
        if ci % 60 == 59:
            jax.clear_caches()


# ---------------------------------------------------------------------------------------------------------------
def real_models(rng):
    """Real bijections / distributions / flows containing wrappers, with inputs."""
    from flowjax import bijections as bj
    from flowjax import distributions as ds
    from flowjax import flows
    from flowjax.wrappers import non_trainable
    k = jr.key(rng.randrange(2**31))
    ks = jr.split(k, 12)
    out = []
    out.append(("Affine", bj.Affine(jnp.arange(3.0), jnp.asarray([0.5, 2.0, 3.0])), (3,), None))
    out.append(("TriangularAffine", bj.TriangularAffine(jnp.zeros(3), jnp.asarray(np.tril(np.arange(1.0, 10).reshape(3, 3)))), (3,), None))
    out.append(("RationalQuadraticSpline", bj.RationalQuadraticSpline(knots=4, interval=3), (), None))
    out.append(("Planar", bj.Planar(ks[0], dim=3), (3,), None))
    out.append(("Chain(nt)", bj.Chain([bj.Exp((2,)), non_trainable(bj.Affine(jnp.ones(2), 2 * jnp.ones(2)))]), (2,), None))
    out.append(("MAF", bj.MaskedAutoregressive(ks[1], transformer=bj.Affine(), dim=3, cond_dim=2, nn_width=5, nn_depth=1), (3,), (2,)))
    out.append(("Coupling", bj.Coupling(ks[2], transformer=bj.RationalQuadraticSpline(knots=3, interval=2), untransformed_dim=1, dim=3, nn_width=4, nn_depth=1), (3,), None))
    out.append(("BlockAutoregressiveNetwork", bj.BlockAutoregressiveNetwork(ks[3], dim=2, depth=1, block_dim=2), (2,), None))
    dists = [("Normal", ds.Normal(jnp.arange(2.0), 2.0)), ("StudentT", ds.StudentT(3.0, jnp.zeros(2), 1.5)),
             ("coupling_flow", flows.coupling_flow(ks[4], base_dist=ds.Normal(jnp.zeros(3)), flow_layers=2, nn_width=4)),
             ("masked_autoregressive_flow", flows.masked_autoregressive_flow(ks[5], base_dist=ds.Normal(jnp.zeros(2)), cond_dim=2, flow_layers=2, nn_width=4)),
             ("planar_flow", flows.planar_flow(ks[6], base_dist=ds.Normal(jnp.zeros(2)), flow_layers=2, negative_slope=0.1, width=4, depth=1))]
    return out, dists


def method_transparency(rep: Report, rng: random.Random):
    from flowjax.wrappers import unwrap
    bijs, dists = real_models(rng)
    r2 = np.random.default_rng(rng.randrange(2**31))
    for name, b, shape, cshape in bijs:
        x = jnp.asarray(r2.normal(size=shape))
        c = None if cshape is None else jnp.asarray(r2.normal(size=cshape))
        ub = unwrap(b)
        for meth in ("transform", "inverse", "transform_and_log_det", "inverse_and_log_det"):
            try:
                a1 = jax.tree_util.tree_leaves(getattr(b, meth)(x, c))
                a2 = jax.tree_util.tree_leaves(getattr(ub, meth)(x, c))
            except NotImplementedError:
                continue
            except Exception as e:  # noqa: BLE001
                rep.violation({"model": name, "method": meth, "error": type(e).__name__},
                              f"{name}.{meth} raised {type(e).__name__}: {e}")
                continue
            rep.count(1, ("transparency", name, meth))
            if not all(np.array_equal(np.asarray(p), np.asarray(q), equal_nan=True) for p, q in zip(a1, a2)):
                rep.violation({"model": name, "method": meth, "what": "m vs unwrap(m)"},
                              f"{name}.{meth}: result on the model and on unwrap(model) differ: {a1} vs {a2}")
    for name, d in dists:
        x = jnp.asarray(r2.normal(size=d.shape))
        c = None if d.cond_shape is None else jnp.asarray(r2.normal(size=d.cond_shape))
        ud = unwrap(d)
        k = jr.PRNGKey(3)
        for meth, args in (("log_prob", (x, c)), ("sample", (k, (), c)), ("sample_and_log_prob", (k, (), c))):
            try:
                a1 = jax.tree_util.tree_leaves(getattr(d, meth)(*args))
                a2 = jax.tree_util.tree_leaves(getattr(ud, meth)(*args))
            except Exception as e:  # noqa: BLE001
                rep.violation({"model": name, "method": meth, "error": type(e).__name__},
                              f"{name}.{meth} raised {type(e).__name__}: {e}")
                continue
            rep.count(1, ("transparency", name, meth))
            if not all(np.array_equal(np.asarray(p), np.asarray(q), equal_nan=True) for p, q in zip(a1, a2)):
                rep.violation({"model": name, "method": meth, "what": "m vs unwrap(m)"},
                              f"{name}.{meth}: result on the model and on unwrap(model) differ")


def case_transparency(rep, spec):
    """m vs unwrap(m), bit-identical, for one entry of the bijection population (harness/zoo.py)."""
    from flowjax.wrappers import unwrap
    from harness import zoo
    z = zoo.make(spec)
    if z is None:
        return
    b, c = z["b"], z["cond"]
    ub = unwrap(b)
    x = jnp.asarray(z["points"][-1]["x"])
    for meth in ("transform", "inverse", "transform_and_log_det", "inverse_and_log_det"):
        if z["noinv"] and meth.startswith("inverse"):
            continue
        try:
            a1 = jax.tree_util.tree_leaves(getattr(b, meth)(x, c))
            a2 = jax.tree_util.tree_leaves(getattr(ub, meth)(x, c))
        except Exception as e:  # noqa: BLE001
            rep.violation({"model": z["name"], "method": meth, "error": type(e).__name__}, f"{z['name']}.{meth}: {type(e).__name__}: {str(e)[:200]}")
            continue
        rep.count(1, ("transparency", z["name"], meth))
        if not all(np.array_equal(np.asarray(p), np.asarray(q), equal_nan=True) for p, q in zip(a1, a2)):
            rep.violation({"model": z["name"], "method": meth, "what": "m vs unwrap(m)"},
                          f"{z['name']}.{meth}: result on the model and on unwrap(model) differ: {a1} vs {a2}", {"spec": spec})


def frozen_through_accessors(rep: Report, rng: random.Random):
    """A frozen component taken out of a model through a public accessor (chain[i], chain[a:b], .bijection, .base_dist,
    iteration) and re-used in a new model is still frozen: after training the new model every floating leaf of the piece is
    bit-identical."""
    from flowjax import bijections as bj
    from flowjax import distributions as ds
    from flowjax.train import fit_to_data
    from flowjax.wrappers import non_trainable, unwrap

    def aff(seed):
        rs = np.random.default_rng(seed)
        return bj.Affine(jnp.asarray(rs.normal(size=2)), jnp.asarray(rs.uniform(0.5, 2.0, size=2)))

    def frozen_chain():
        return bj.Chain([non_trainable(aff(1)), bj.Tanh((2,)), non_trainable(aff(2)), aff(3)])
    scenarios = {
        "Chain[0]": lambda: frozen_chain()[0], "Chain[-2]": lambda: frozen_chain()[-2], "Chain[2]": lambda: frozen_chain()[2],
        "Chain[0:1]": lambda: frozen_chain()[0:1], "Chain[2:3]": lambda: frozen_chain()[2:3],
        "Chain.bijections[0]": lambda: frozen_chain().bijections[0],
        "next(iter(Chain.bijections))": lambda: next(iter(frozen_chain().bijections)),
        "Invert(frozen).bijection": lambda: bj.Invert(non_trainable(aff(4))).bijection,
        "Transformed(..., frozen).bijection": lambda: ds.Transformed(ds.Normal(jnp.zeros(2)), non_trainable(aff(5))).bijection,
        "merged Transformed(Transformed(.., frozen), b).bijection[0]":
            lambda: ds.Transformed(ds.Transformed(ds.StandardNormal((2,)), non_trainable(aff(6))), aff(7)).merge_transforms().bijection[0],
        "Chain of a frozen Chain, [0][0]": lambda: bj.Chain([non_trainable(bj.Chain([aff(8), aff(9)])), aff(10)])[0],
    }
    x = jnp.asarray(np.random.default_rng(rng.randrange(2**31)).normal(size=(24, 2)))
    for name, get in scenarios.items():
        rep.count(1, ("accessor", name))
        try:
            piece = get()
            before = [np.asarray(l).copy() for l in jax.tree_util.tree_leaves(unwrap(piece)) if eqx.is_inexact_array(l)]
            model = ds.Transformed(ds.Normal(jnp.zeros(2), jnp.ones(2)), piece)
            out, _ = fit_to_data(jr.PRNGKey(3), model, x, max_epochs=2, batch_size=8, optimizer=optax.sgd(0.1), show_progress=False, return_best=False)
            after = [np.asarray(l) for l in jax.tree_util.tree_leaves(unwrap(out.bijection)) if eqx.is_inexact_array(l)]
            base_moved = not np.array_equal(np.asarray(out.base_dist.loc), np.zeros(2))
        except Exception as e:  # noqa: BLE001
            rep.violation({"accessor": name, "error": type(e).__name__}, f"frozen piece through {name}: {type(e).__name__}: {str(e)[:200]}")
            continue
        if not base_moved:
            rep.machinery_failure(f"frozen_through_accessors: training did not move the trainable base in scenario {name}")
        if len(before) != len(after) or any(not np.array_equal(a, b) for a, b in zip(before, after)):
            rep.violation({"accessor": name, "what": "frozen leaf moved"},
                          f"a frozen component taken out with {name} and trained inside a new model moved: {[b.tolist() for b in before]} -> "
                          f"{[a.tolist() for a in after]}")


def frozen_inside_combinators(rep: Report, rng: random.Random):
    """A component frozen BEFORE it is handed to a combinator's constructor stays frozen inside it: the constructor must keep
    the wrapper (also on the vectorised-construction paths), so that training the composite leaves the component's leaves
    bit-identical.  The frozen leaves are recognised by their (distinctive) values, not by a wrapper the constructor may
    have dropped."""
    from flowjax import bijections as bj
    from flowjax import distributions as ds
    from flowjax.train import fit_to_data
    from flowjax.wrappers import non_trainable, unwrap
    MARK = 7.0

    def faff(shape, i=0):          # a frozen affine with recognisable values
        n = int(np.prod(shape)) if shape else 1
        loc = (MARK + 0.125 * (i + 1) + 0.0078125 * np.arange(n)).reshape(shape)
        return non_trainable(bj.Affine(jnp.asarray(loc), jnp.asarray(loc - 5.0)))

    def stacked(n, shape):
        locs = jnp.asarray(np.stack([MARK + 0.125 * (i + 1) + 0.0078125 * np.arange(int(np.prod(shape)) if shape else 1).reshape(shape) for i in range(n)]))
        return eqx.filter_vmap(lambda l: non_trainable(bj.Affine(l, l - 5.0)))(locs)
    scenarios = {
        "Vmap(in_axes) of a frozen vectorised component": lambda: bj.Vmap(stacked(2, ()), in_axes=eqx.if_array(0)),
        "Vmap(in_axes) over rows": lambda: bj.Chain([bj.Vmap(stacked(2, (1,)), in_axes=eqx.if_array(0)), bj.Reshape(bj.Affine(jnp.zeros(2)), (2, 1))]),
        "Vmap(axis_size)": lambda: bj.Vmap(faff(()), axis_size=2),
        "Scan": lambda: bj.Scan(stacked(3, (2,))),
        "Chain": lambda: bj.Chain([faff((2,)), bj.Affine(jnp.zeros(2))]),
        "Concatenate": lambda: bj.Concatenate([faff((1,)), bj.Affine(jnp.zeros(1))]),
        "Stack": lambda: bj.Stack([faff(()), bj.Affine(jnp.zeros(()))]),
        "Partial": lambda: bj.Chain([bj.Partial(faff(()), 0, (2,)), bj.Affine(jnp.zeros(2))]),
        "Invert": lambda: bj.Chain([bj.Invert(faff((2,))), bj.Affine(jnp.zeros(2))]),
        "Reshape": lambda: bj.Chain([bj.Reshape(faff((2, 1)), (2,)), bj.Affine(jnp.zeros(2))]),
        "Invert(Vmap(in_axes))": lambda: bj.Chain([bj.Invert(bj.Vmap(stacked(2, ()), in_axes=eqx.if_array(0))), bj.Affine(jnp.zeros(2))]),
    }
    x = jnp.asarray(np.random.default_rng(rng.randrange(2**31)).normal(size=(24, 2)))
    for name, make in scenarios.items():
        rep.count(1, ("frozen-inside", name))
        try:
            comb = make()
            x_ = x.reshape((24,) + tuple(comb.shape))
            model = ds.Transformed(ds.Normal(jnp.zeros(comb.shape), jnp.ones(comb.shape)), comb)
            before = [np.asarray(l).copy() for l in jax.tree_util.tree_leaves(unwrap(model.bijection)) if eqx.is_inexact_array(l)]
            out, _ = fit_to_data(jr.PRNGKey(4), model, x_, max_epochs=2, batch_size=8, optimizer=optax.sgd(0.05), show_progress=False, return_best=False)
            after = [np.asarray(l) for l in jax.tree_util.tree_leaves(unwrap(out.bijection)) if eqx.is_inexact_array(l)]
            moved_base = not np.array_equal(np.asarray(out.base_dist.loc), np.zeros(comb.shape))
        except Exception as e:  # noqa: BLE001
            rep.violation({"frozen inside": name, "error": type(e).__name__}, f"frozen component inside {name}: {type(e).__name__}: {str(e)[:200]}")
            continue
        if not moved_base:
            rep.machinery_failure(f"frozen_inside_combinators: training moved nothing in scenario {name}")
        marked = [i for i, b in enumerate(before) if b.size and np.all((np.abs(b) >= 2.0) & (np.abs(b) < 8.0)) and np.all(np.abs(b - np.round(b * 128) / 128) == 0)]
        if not marked:
            rep.machinery_failure(f"frozen_inside_combinators: no marked leaf found in scenario {name}")
        bad = [i for i in marked if len(after) != len(before) or not np.array_equal(before[i], after[i])]
        if bad:
            rep.violation({"frozen inside": name, "what": "frozen leaf moved"},
                          f"a component frozen before it was handed to {name} moved during training: {before[bad[0]].ravel()[:4].tolist()} -> {after[bad[0]].ravel()[:4].tolist()}")


def frozen_across_runs(rep: Report, rng: random.Random):
    """Frozen stays frozen over a HISTORY of training calls: the model a loop returns is trained again (either loop, either
    order); the leaves frozen at the start are bit-identical at the end and the trainable ones moved in every run."""
    from flowjax import distributions as ds
    from flowjax import flows
    from flowjax.train import fit_to_data, fit_to_variational_target
    from flowjax.train.losses import ElboLoss
    from flowjax.wrappers import non_trainable, unwrap
    x = jnp.asarray(np.random.default_rng(rng.randrange(2**31)).normal(size=(24, 2)))
    target = ElboLoss(ds.Normal(jnp.zeros(2)).log_prob, num_samples=8)

    def run(kind, model, k):
        if kind == "data":
            return fit_to_data(k, model, x, max_epochs=2, batch_size=8, optimizer=optax.sgd(0.05), show_progress=False, return_best=False)[0]
        return fit_to_variational_target(k, model, target, steps=3, optimizer=optax.sgd(0.05), show_progress=False, return_best=False)[0]
    for which in ("base", "bijection"):
        for order in (("data", "data"), ("data", "variational"), ("variational", "data"), ("variational", "variational"),
                      ("data", "data", "data")):
            flow = flows.masked_autoregressive_flow(jr.PRNGKey(5), base_dist=ds.Normal(jnp.zeros(2), jnp.ones(2)), flow_layers=1, nn_width=4)
            flow = eqx.tree_at(lambda f: getattr(f, "base_dist" if which == "base" else "bijection"), flow, replace_fn=non_trainable)
            frozen0 = [np.asarray(l).copy() for l in jax.tree_util.tree_leaves(unwrap(getattr(flow, "base_dist" if which == "base" else "bijection")))
                       if eqx.is_inexact_array(l)]
            other = "bijection" if which == "base" else "base_dist"
            rep.count(1, ("across-runs", which, order))
            try:
                m = flow
                for j, kind in enumerate(order):
                    before = [np.asarray(l).copy() for l in jax.tree_util.tree_leaves(unwrap(getattr(m, other))) if eqx.is_inexact_array(l)]
                    structure = jax.tree_util.tree_structure(m)
                    m = run(kind, m, jr.PRNGKey(10 + j))
                    if jax.tree_util.tree_structure(m) != structure:
                        rep.violation({"history": list(order), "frozen": which, "what": "returned model has another pytree structure"},
                                      f"run {j} ({kind}) returned a model whose pytree structure differs from the one it was given "
                                      f"(wrappers -- frozen marks, reparameterisations -- were dropped or added)")
                    after = [np.asarray(l) for l in jax.tree_util.tree_leaves(unwrap(getattr(m, other))) if eqx.is_inexact_array(l)]
                    if all(np.array_equal(a, b) for a, b in zip(before, after)):
                        rep.machinery_failure(f"frozen_across_runs: run {j} ({kind}) moved nothing that is trainable")
                frozen1 = [np.asarray(l) for l in jax.tree_util.tree_leaves(unwrap(getattr(m, "base_dist" if which == "base" else "bijection")))
                           if eqx.is_inexact_array(l)]
            except Exception as e:  # noqa: BLE001
                rep.violation({"history": list(order), "frozen": which, "error": type(e).__name__},
                              f"training runs {order} with frozen {which}: {type(e).__name__}: {str(e)[:200]}")
                continue
            if len(frozen0) != len(frozen1) or any(not np.array_equal(a, b) for a, b in zip(frozen0, frozen1)):
                rep.violation({"history": list(order), "frozen": which, "what": "frozen leaf moved"},
                              f"the {which} was frozen; after the training runs {order} (each on the model the previous one returned) its "
                              f"leaves moved: {[a.ravel()[:3].tolist() for a in frozen0]} -> {[b.ravel()[:3].tolist() for b in frozen1]}")


def frozen_real_flows(rep: Report, rng: random.Random, count: int, traces: list):
    """Real flows with frozen subsets, trained by both loops with real optimisers: digests per leaf."""
    from flowjax import distributions as ds
    from flowjax import flows
    from flowjax.train import fit_to_data, fit_to_variational_target
    from flowjax.train.losses import ElboLoss
    from flowjax.wrappers import NonTrainable, non_trainable
    for i in range(count):
        k = jr.PRNGKey(rng.randrange(2**31))
        k1, k2, k3 = jr.split(k, 3)
        kind = i % 3
        if kind == 0:
            flow = flows.coupling_flow(k1, base_dist=ds.Normal(jnp.zeros(3)), flow_layers=2, nn_width=4)
        elif kind == 1:
            flow = flows.masked_autoregressive_flow(k1, base_dist=ds.Normal(jnp.zeros(2)), flow_layers=2, nn_width=4)
        else:
            flow = flows.planar_flow(k1, base_dist=ds.Normal(jnp.zeros(2)), flow_layers=2, negative_slope=0.1, width=4, depth=1)
        pattern = ["base", "bijection", "none", "all"][i % 4]
        if pattern == "base":
            flow = eqx.tree_at(lambda f: f.base_dist, flow, replace_fn=non_trainable)
        elif pattern == "bijection":
            flow = eqx.tree_at(lambda f: f.bijection, flow, replace_fn=non_trainable)
        elif pattern == "all":
            flow = non_trainable(flow)
        leaves = jax.tree_util.tree_leaves(flow)
        under = frozen_paths(flow)
        ids = list(range(1, len(leaves) + 1))
        frozen_ids = [j for j, f, lf in zip(ids, under, leaves) if f or not eqx.is_inexact_array(lf)]
        train_ids = [j for j in ids if j not in frozen_ids]
        opt = [optax.adam(0.05), optax.sgd(0.1), optax.adam(0.3)][i % 3]
        dim = flow.shape[0]
        try:
            if i % 2:
                x = jr.normal(k2, (20, dim))
                out, _ = fit_to_data(k3, flow, x, max_epochs=2, batch_size=5, optimizer=opt, show_progress=False, return_best=False)
            else:
                loss = ElboLoss(ds.Normal(jnp.zeros(dim)).log_prob, num_samples=8)
                out, _ = fit_to_variational_target(k3, flow, loss, steps=3, optimizer=opt, show_progress=False, return_best=False)
            params, static = eqx.partition(flow, eqx.is_inexact_array)
            g = eqx.filter_grad(lambda p: eqx.combine(p, static).log_prob(jnp.ones(dim) * 0.3))(params)
        except Exception as e:  # noqa: BLE001
            rep.violation({"flow": kind, "pattern": pattern, "error": type(e).__name__},
                          f"training a flow with frozen {pattern} raised {type(e).__name__}: {e}")
            continue
        d0 = [dig(x) for x in leaves]
        d1 = [dig(x) for x in jax.tree_util.tree_leaves(out)]
        changed = [j for j in ids if d0[j - 1] != d1[j - 1]]
        inex = [j for j, lf in zip(ids, leaves) if eqx.is_inexact_array(lf)]
        gnz = [j for j, gv in zip(inex, jax.tree_util.tree_leaves(g)) if np.any(np.asarray(gv) != 0)]
        rep.count(1, ("frozen-flow", kind, pattern, i % 2))
        # the flow is presented to the trace spec as a flat container of its leaves: frozen ones under an nt node
        nodes = []
        for j, lf in zip(ids, leaves):
            nodes.append({"k": "arr" if eqx.is_inexact_array(lf) else "int", "ch": [], "f": "", "b": 0})
        n = len(nodes)
        fr = [j for j in ids if j in frozen_ids and nodes[j - 1]["k"] == "arr"]
        nodes.append({"k": "node", "ch": [j for j in ids if j not in fr], "f": "", "b": 0})
        nodes.append({"k": "node", "ch": fr, "f": "", "b": 0})
        nodes.append({"k": "nt", "ch": [n + 2], "f": "", "b": 0})
        nodes.append({"k": "node", "ch": [n + 1, n + 3], "f": "", "b": 0})
        traces.append({"cfg": {"nodes": nodes, "root": n + 4, "extra_trainable": [], "extra_frozen": [], "counting": False,
                               "opt": "real", "steps": 3, "loop": "data" if i % 2 else "variational",
                               "term": f"flow{kind}/{pattern}"},
                       "ev": [{"k": "step", "changed": changed}],
                       "ret": {"changed": changed, "grad_nonzero": gnz}})
        if pattern not in ("all",) and not set(changed) & set(train_ids):
            rep.note(f"real flow {kind}/{pattern}: no trainable leaf moved (uninformative run)")


def main():
    ap = argparse.ArgumentParser()
    ap.add_argument("--replay")
    a = ap.parse_args()
    t = tier()
    thorough = t == "thorough"
    rep = Report(PID, t, "model_checking")
    rng = random.Random(rep.seed)
    sess = Sess()
    traces: list = []
    if a.replay:
        payload = json.loads(open(a.replay).read())["replay"]
        print(json.dumps(payload, indent=1)[:3000])
        if "trace" in payload:
            tracecheck.check(rep, "Trace_Unwrap", "Trace_Unwrap_I.cfg", [payload["trace"]], P_GUARDS, pid=PID)
        elif "case" in payload:
            replay_trees(rep, [payload["case"]], rng, 1, sess, traces)
        rep.count(2, "replay-a"), rep.count(0, "replay-b")
        rep.set("states", 1), rep.set("transitions", 1), rep.set("traces_validated_against_impl", 1)
        return rep.finish()
    cases = model_check(rep, thorough)
    replay_trees(rep, cases, rng, 6000 if thorough else 700, sess, traces)
    method_transparency(rep, rng)
    from engine import pool
    from harness import zoo
    pop = [sp for sp in zoo.specs(t, rep.seed, []) if sp["src"] in ("leaf", "flow")]
    pool.map_cases(rep, "harness.c12", "case_transparency", pop, chunk=6, clear_every=10)
    frozen_real_flows(rep, rng, 36 if thorough else 12, traces)
    frozen_through_accessors(rep, rng)
    frozen_across_runs(rep, rng)
    frozen_inside_combinators(rep, rng)
    stats = tracecheck.check(rep, "Trace_Unwrap", "Trace_Unwrap_I.cfg", traces, P_GUARDS, pid=PID,
                             describe=lambda tr: {"tree": tr["cfg"]["term"], "opt": tr["cfg"]["opt"],
                                                  "loop": tr["cfg"]["loop"], "steps": tr["cfg"]["steps"]})
    rep.set("traces_validated_against_impl", len(traces))
    rep.set("trace_validation", stats)
    if traces:
        rep.sample({"kind": "code->spec digests trace", "trace": traces[len(traces) // 2]}, 5)
    rep.set("rule", "spec->code: one case per wrapper tree enumerated by TLC (non-trivial = at least two wrapper nodes); "
                    "code->spec: one digest trace per (tree | real flow with a frozen subset) x optimiser x loop")
    rep.assume("the primitives exp, softplus, tanh, where, norm are evaluated with NumPy in float64 (trusted base)")
    return rep.finish()


if __name__ == "__main__":
    sys.exit(main_guard(PID, main))
