"""User-side extensions through the public extension points (module level, so that worker processes can import them)."""
from __future__ import annotations

import jax.numpy as jnp
from flowjax.bijections.bijection import AbstractBijection


class UserAffine(AbstractBijection):
    """A user's own bijection: y = exp(log_a) * x + b, elementwise, written against the documented abstract interface
    (transform_and_log_det and inverse_and_log_det; the other two methods come from the base class where it provides them)."""
    shape: tuple
    cond_shape: None
    log_a: jnp.ndarray
    b: jnp.ndarray

    def __init__(self, log_a, b):
        self.log_a, self.b = jnp.asarray(log_a, float), jnp.asarray(b, float)
        self.shape, self.cond_shape = self.log_a.shape, None

    def transform(self, x, condition=None):
        return jnp.exp(self.log_a) * x + self.b

    def transform_and_log_det(self, x, condition=None):
        return jnp.exp(self.log_a) * x + self.b, self.log_a.sum()

    def inverse(self, y, condition=None):
        return (y - self.b) * jnp.exp(-self.log_a)

    def inverse_and_log_det(self, y, condition=None):
        return (y - self.b) * jnp.exp(-self.log_a), -self.log_a.sum()


class UserShift(AbstractBijection):
    """A user's conditional bijection: y = x + w * sum(condition)."""
    shape: tuple
    cond_shape: tuple
    w: jnp.ndarray

    def __init__(self, w, cond_shape):
        self.w = jnp.asarray(w, float)
        self.shape, self.cond_shape = self.w.shape, tuple(cond_shape)

    def transform(self, x, condition=None):
        return x + self.w * condition.sum()

    def transform_and_log_det(self, x, condition=None):
        return x + self.w * condition.sum(), jnp.zeros(())

    def inverse(self, y, condition=None):
        return y - self.w * condition.sum()

    def inverse_and_log_det(self, y, condition=None):
        return y - self.w * condition.sum(), jnp.zeros(())
