"""C14 -- methods are pure and transparent to jit, vmap and serialisation.  See harness/genmain.py, genchecks.case_c14."""
from harness import genmain


def distributions(rep, rng, tier):
    import equinox as eqx
    import jax
    import jax.numpy as jnp
    import jax.random as jr
    import numpy as np
    from flowjax import distributions as ds
    from harness import c03
    dists = [("Normal", ds.Normal(jnp.arange(3.0), 2.0)), ("StudentT", ds.StudentT(3.0, jnp.zeros(2), 1.5)),
             ("MultivariateNormal", ds.MultivariateNormal(jnp.zeros(2), jnp.array([[2.0, 0.3], [0.3, 1.0]]))),
             ("Uniform", ds.Uniform(jnp.zeros(2), jnp.ones(2) * 3)), ("Gumbel", ds.Gumbel(jnp.zeros(2))),
             ("coupling_flow", c03.make_flow({"factory": "coupling_flow", "dim": 3, "cond": 2, "invert": True, "transformer": "spline", "base": "normal", "seed": 1})),
             ("maf", c03.make_flow({"factory": "masked_autoregressive_flow", "dim": 2, "cond": None, "invert": False, "transformer": "affine", "base": "normal", "seed": 2}))]
    k = jr.PRNGKey(5)
    for name, d in dists:
        c = None if d.cond_shape is None else jnp.ones(d.cond_shape) * 0.3
        X = jr.normal(jr.PRNGKey(1), (3,) + d.shape) * 0.5 + 0.6
        try:
            e = np.asarray(d.log_prob(X, c))
            j = np.asarray(eqx.filter_jit(lambda dd, x: dd.log_prob(x, c))(d, X))
            v = np.asarray(jax.vmap(lambda x: d.log_prob(x, c))(X))
            s1, s2 = np.asarray(d.sample(k, (2,), c)), np.asarray(d.sample(k, (2,), c))
            sj = np.asarray(eqx.filter_jit(lambda dd, kk: dd.sample(kk, (2,), c))(d, k))
        except Exception as ex:  # noqa: BLE001
            rep.violation({"dist": name, "what": "tracing raises", "error": type(ex).__name__}, f"{name}: {type(ex).__name__}: {str(ex)[:200]}")
            continue
        rep.count(1, ("dist", name))
        # flatten / unflatten and leaf serialisation into a structurally identical model with other leaf values
        try:
            import io
            leaves, td = jax.tree_util.tree_flatten(d)
            d_flat = jax.tree_util.tree_unflatten(td, leaves)
            buf = io.BytesIO()
            eqx.tree_serialise_leaves(buf, d)
            buf.seek(0)
            like = jax.tree_util.tree_map(lambda l: l * 0 + 0.321 if eqx.is_inexact_array(l) else l, d)
            d_ser = eqx.tree_deserialise_leaves(buf, like)
            for nm, dd in (("flatten/unflatten", d_flat), ("serialise/deserialise", d_ser)):
                if not np.array_equal(np.asarray(dd.log_prob(X, c)), e, equal_nan=True) or not np.array_equal(np.asarray(dd.sample(k, (2,), c)), s1):
                    rep.violation({"dist": name, "what": f"{nm} copy behaves differently"}, f"{name}: the {nm} copy gives different log_prob / sample")
        except Exception as ex:  # noqa: BLE001
            rep.violation({"dist": name, "what": "serialisation raises", "error": type(ex).__name__}, f"{name}: {type(ex).__name__}: {str(ex)[:200]}")
        if not (np.allclose(e, j, rtol=1e-9, atol=1e-12) and np.allclose(e, v, rtol=1e-9, atol=1e-12)):
            rep.violation({"dist": name, "what": "jit / vmap != eager"}, f"{name}: log_prob eager {e}, jit {j}, vmap {v}")
        if not np.array_equal(s1, s2) or not np.allclose(s1, sj, rtol=1e-9, atol=1e-12):
            rep.violation({"dist": name, "what": "sample not reproducible / jit differs"}, f"{name}: sample {s1} vs {s2} vs jit {sj}")


if __name__ == "__main__":
    genmain.run("C14", "case_c14",
                "one evaluation per (bijection, method): two eager calls, eqx.filter_jit, jax.vmap over inputs against a "
                "Python loop, a tree_flatten/unflatten copy and a tree_serialise_leaves -> freshly built model -> "
                "tree_deserialise_leaves copy; plus distributions; non-trivial = every case; distinct by (bijection, method)",
                ["eager vs jit and vmap vs loop agree to 1e-9 relative in float64 (XLA fuses differently; they are not "
                 "bit-identical on correct code); copies in the same mode are bit-identical"], extra=distributions)
