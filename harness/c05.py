"""C05 -- named distribution families match their textbook densities (density / accessor / mixture clauses).

design      Families.tla (TLC, exact rationals): for every (family, parameter configuration with scalar / vector
            broadcasting, point) of the grid, which coordinates lie inside / on the edge of / outside the support, hence
            whether the log-density is a finite sum over coordinates or minus infinity; the documented shape is the
            broadcast of the parameter shapes.
spec->code  every state is an implementation test: the real log_prob must be -inf exactly when TLC says a coordinate is
            outside the support (never NaN, also on the edges), and otherwise equal the textbook log-density -- a term
            over primitive functions (log, exp, lgamma, pi) written from the textbook and evaluated with NumPy / math in
            float64 -- summed over coordinates; accessors return the constructor's values; MultivariateNormal against
            the textbook formula; mixtures equal the weight-normalised logsumexp and are invariant to rescaling weights.
NOT DECIDED the clause "samples follow that density" needs a goodness-of-fit statistic, which is outside this technique;
            only the structural fact that a sample of a location-scale family is loc + scale * (standard draw for the same
            key) is checked here.
"""

from __future__ import annotations

import argparse
import json
import math
import random
import sys
from fractions import Fraction

import jax

jax.config.update("jax_enable_x64", True)

import equinox as eqx  # noqa: E402
import jax.numpy as jnp  # noqa: E402
import jax.random as jr  # noqa: E402
import numpy as np  # noqa: E402
from scipy.special import logsumexp  # noqa: E402

from engine import tlc  # noqa: E402
from engine.report import Report, main_guard, tier  # noqa: E402

PID = "C05"
LOG2PI = math.log(2 * math.pi)


def fl(q):
    return float(Fraction(int(q[0]), int(q[1])))


# textbook log-densities of the standardised variable z (scalar), written from the textbook
def std_logpdf(f, z, df=None):
    if f == "Normal":
        return -0.5 * z * z - 0.5 * LOG2PI
    if f == "Gumbel":
        return -(z + math.exp(-z)) if z > -700 else -math.inf          # the density underflows: exp(-z) exceeds the float range
    if f == "Cauchy":
        return -math.log(math.pi) - math.log1p(z * z)
    if f == "Laplace":
        return -abs(z) - math.log(2.0)
    if f == "Logistic":
        return -z - 2.0 * math.log1p(math.exp(-z)) if z > -700 else z
    if f == "StudentT":
        a = df / 2
        # lgamma(a + 1/2) - lgamma(a): the difference of two huge numbers for large df; Stirling series there (error O(a^-5))
        dlg = (0.5 * math.log(a) - 1 / (8 * a) + 1 / (192 * a**3)) if df > 1e6 else (math.lgamma(a + 0.5) - math.lgamma(a))
        return dlg - 0.5 * math.log(df * math.pi) - (df + 1) / 2 * math.log1p(z * z / df)
    raise ValueError(f)


def textbook(f, ps, x):
    """Sum over coordinates of the textbook log-density; ps are lists of floats (length 1 broadcasts)."""
    n = len(x)
    bc = lambda p, i: p[0] if len(p) == 1 else p[i]  # noqa: E731
    tot = 0.0
    for i in range(n):
        xi = x[i]
        if f in ("Normal", "Gumbel", "Cauchy", "Laplace", "Logistic"):
            loc, sc = bc(ps[0], i), bc(ps[1], i)
            tot += std_logpdf(f, (xi - loc) / sc) - math.log(sc)
        elif f == "StudentT":
            df, loc, sc = bc(ps[0], i), bc(ps[1], i), bc(ps[2], i)
            tot += std_logpdf(f, (xi - loc) / sc, df) - math.log(sc)
        elif f == "LogNormal":
            loc, sc = bc(ps[0], i), bc(ps[1], i)
            tot += std_logpdf("Normal", (math.log(xi) - loc) / sc) - math.log(sc) - math.log(xi)
        elif f == "Exponential":
            rate = bc(ps[0], i)
            tot += math.log(rate) - rate * xi
        elif f == "Uniform":
            lo, hi = bc(ps[0], i), bc(ps[1], i)
            tot += -math.log(hi - lo)
    return tot


def build(f, ps):
    from flowjax import distributions as ds
    arr = lambda p: jnp.asarray(p[0]) if len(p) == 1 else jnp.asarray(p)  # noqa: E731
    return getattr(ds, f)(*[arr(p) for p in ps])


def check_case(rep, c):
    f = c["f"]
    ps = [[fl(q) for q in p] for p in c["ps"]]
    x = [fl(q) for q in c["x"]]
    key = {"family": f, "params": c["ps"], "x": c["x"]}
    desc = f"{f}({', '.join(str(p if len(p) > 1 else p[0]) for p in ps)})"
    try:
        d = build(f, ps)
        xs = jnp.asarray(x) if d.shape else jnp.asarray(x[0])
        lp = float(d.log_prob(xs))
    except Exception as e:  # noqa: BLE001
        rep.violation({**key, "error": type(e).__name__}, f"{desc}.log_prob({x}) raised {type(e).__name__}: {str(e)[:200]}")
        return
    n = len(x)
    if tuple(d.shape) != ((n,) if n > 1 else ()):
        rep.violation({**key, "what": "shape"}, f"{desc}: shape {d.shape}; the broadcast of the parameter shapes is {(n,) if n > 1 else ()}")
    rep.count(1, ("lp", f, json.dumps(c["ps"]), json.dumps(c["x"])) if c["expect"] != "finite" or n > 1 else ("lp1", f, json.dumps(c["ps"]), json.dumps(c["x"])))
    if lp != lp:
        rep.violation({**key, "what": "NaN"}, f"{desc}.log_prob({x}) is NaN (coordinates {c['classes']})", {"case": c})
        return
    if c["expect"] == "-inf":
        if lp != -math.inf:
            rep.violation({**key, "what": "finite outside the support"},
                          f"{desc}.log_prob({x}) = {lp}; a coordinate lies outside the support ({c['classes']}), the log-density is -inf", {"case": c})
        return
    if c["expect"] == "edge":
        return          # the value on the edge of the support is a convention; only NaN is ruled out
    ref = textbook(f, ps, x)
    if ref == -math.inf:       # inside the support, but the density underflows in float64
        if not lp < -1e300:
            rep.violation({**key, "what": "value"}, f"{desc}.log_prob({x}) = {lp}; the textbook log-density underflows to -inf there", {"case": c})
        return
    tol = 1e-10 * (1 + abs(ref))
    if f == "StudentT":     # the textbook formula as usually evaluated differences two log-gammas of size ~ df log df: its own rounding
        tol += 8 * 2.3e-16 * n * max(abs(math.lgamma(max(p) / 2)) for p in [ps[0]])
    if not abs(lp - ref) <= tol:
        rep.violation({**key, "what": "value"}, f"{desc}.log_prob({x}) = {lp}; the textbook log-density summed over coordinates is {ref}", {"case": c})


def accessors_and_more(rep: Report, rng: random.Random):
    from flowjax import distributions as ds
    from flowjax.wrappers import unwrap

    def chk(name, got, exp, tol=1e-10):
        rep.count(1, ("accessor", name))
        g, e = np.asarray(got, float), np.asarray(exp, float)
        if g.shape != e.shape or not np.all(np.abs(g - e) <= tol * (1 + np.abs(e))):
            rep.violation({"accessor": name}, f"{name}: accessor returns {g.tolist()}, constructed with {e.tolist()}")

    loc, sc = np.array([0.3, -2.0, 5.0]), np.array([0.5, 2.0, 7.0])
    for fam in ("Normal", "Gumbel", "Cauchy", "Laplace", "Logistic"):
        d = getattr(ds, fam)(jnp.asarray(loc), jnp.asarray(sc))
        chk(f"{fam}.loc", d.loc, loc)
        chk(f"{fam}.scale", d.scale, sc)
        # loc and scale broadcast against each other
        d2 = getattr(ds, fam)(jnp.asarray(loc), 2.0)
        chk(f"{fam}.scale (broadcast)", d2.scale, np.full(3, 2.0))
        # structural sampler fact: a location-scale sample is loc + scale * (standard draw for the same key)
        k = jr.PRNGKey(3)
        std = getattr(ds, fam)(jnp.zeros(3), jnp.ones(3))
        s, s0 = np.asarray(d.sample(k)), np.asarray(std.sample(k))
        rep.count(1, ("locscale-sample", fam))
        if not np.allclose(s, loc + sc * s0, rtol=1e-12, atol=1e-12):
            rep.violation({"family": fam, "what": "sample is not loc + scale * standard draw"}, f"{fam}: {s} vs {loc + sc * s0}")
    st = ds.StudentT(jnp.asarray([2.5, 4.0, 30.0]), jnp.asarray(loc), jnp.asarray(sc))
    chk("StudentT.df", st.df, [2.5, 4.0, 30.0]); chk("StudentT.loc", st.loc, loc); chk("StudentT.scale", st.scale, sc)
    chk("Exponential.rate", ds.Exponential(jnp.asarray(sc)).rate, sc)
    u = ds.Uniform(jnp.asarray([-1.0, 0.0]), jnp.asarray([1.0, 5.0]))
    chk("Uniform.minval", u.minval, [-1.0, 0.0]); chk("Uniform.maxval", u.maxval, [1.0, 5.0])
    # LogNormal: loc / scale of the underlying normal: density identity log p(x) = N(log x) - log x (checked in the grid)
    # MultivariateNormal against the textbook formula
    for i in range(6):
        rs = np.random.default_rng(rng.randrange(2**31))
        n = int(rs.integers(1, 5))
        A = rs.normal(size=(n, n))
        cov = A @ A.T + 0.3 * np.eye(n)
        mu = rs.normal(size=n)
        d = ds.MultivariateNormal(jnp.asarray(mu), jnp.asarray(cov))
        x = rs.normal(size=n) * 2
        dx = x - mu
        ref = -0.5 * (dx @ np.linalg.solve(cov, dx)) - 0.5 * np.linalg.slogdet(cov)[1] - 0.5 * n * LOG2PI
        lp = float(d.log_prob(jnp.asarray(x)))
        rep.count(1, ("mvn", i))
        if not abs(lp - ref) <= 1e-9 * (1 + abs(ref)):
            rep.violation({"family": "MultivariateNormal", "what": "value"}, f"MultivariateNormal log_prob {lp} vs textbook {ref}")
        chk("MultivariateNormal.covariance", d.covariance, cov, 1e-9)
        chk("MultivariateNormal.loc", d.loc, mu)
    # mixtures: weight-normalised sum of component densities, invariant to rescaling the weights
    for i in range(6):
        rs = np.random.default_rng(rng.randrange(2**31))
        kcomp = int(rs.integers(2, 5))
        w = rs.uniform(0.1, 3.0, size=kcomp)
        locs, scs = rs.normal(size=kcomp) * 2, rs.uniform(0.3, 2.0, size=kcomp)
        fam = ["Normal", "Laplace", "Gumbel"][i % 3]
        comp = eqx.filter_vmap(getattr(ds, fam))(jnp.asarray(locs), jnp.asarray(scs))
        mix = ds.VmapMixture(comp, jnp.asarray(w))
        mix2 = ds.VmapMixture(comp, jnp.asarray(w * 37.5))
        x = float(rs.normal() * 2)
        ref = logsumexp([math.log(w[j] / w.sum()) + std_logpdf(fam, (x - locs[j]) / scs[j]) - math.log(scs[j]) for j in range(kcomp)])
        lp, lp2 = float(mix.log_prob(jnp.asarray(x))), float(mix2.log_prob(jnp.asarray(x)))
        rep.count(1, ("mixture", fam, i))
        if not abs(lp - ref) <= 1e-10 * (1 + abs(ref)):
            rep.violation({"family": "VmapMixture", "component": fam, "what": "value"},
                          f"VmapMixture of {fam}: log_prob({x}) = {lp}; weight-normalised logsumexp of the component densities = {ref}")
        if not (np.isfinite(lp) and abs(lp - lp2) <= 1e-10 * (1 + abs(lp))):
            rep.violation({"family": "VmapMixture", "component": fam, "what": "not invariant to rescaling the weights"},
                          f"VmapMixture of {fam}: {lp} with weights w, {lp2} with 37.5 w")
        if lp != lp:
            rep.violation({"family": "VmapMixture", "what": "NaN"}, "VmapMixture log_prob is NaN")


def mixture_draws_are_joint(rep: Report, rng: random.Random):
    """A necessary condition of 'samples follow the density' that needs no statistics: with components 1e3 standard
    deviations apart, every coordinate of a draw lies next to the SAME component (a draw that mixes coordinates of
    different components has density ~ exp(-5e5) under the mixture), and each component is drawn about as often as its
    weight says (bounds 8 standard deviations wide: a false alarm has probability < 1e-14)."""
    from flowjax import distributions as ds
    for i, (dim, kcomp) in enumerate([(3, 2), (2, 3), (4, 2)]):
        rs = np.random.default_rng(rng.randrange(2**31))
        centres = np.arange(kcomp)[:, None] * 1000.0 + rs.normal(size=(kcomp, dim))
        w = rs.uniform(0.5, 2.0, size=kcomp)
        comp = eqx.filter_vmap(ds.Normal)(jnp.asarray(centres), jnp.ones((kcomp, dim)))
        mix = ds.VmapMixture(comp, jnp.asarray(w))
        n = 400
        rep.count(1, ("mixture-joint", dim, kcomp))
        try:
            xs = np.asarray(mix.sample(jr.PRNGKey(int(rs.integers(2**31))), (n,)))
        except Exception as e:  # noqa: BLE001
            rep.violation({"family": "VmapMixture", "what": "sample raises", "error": type(e).__name__}, f"VmapMixture.sample: {type(e).__name__}: {str(e)[:200]}")
            continue
        nearest = np.argmin(np.abs(xs[:, :, None] - centres.T[None, :, :]), axis=2)          # (n, dim): component next to each coordinate
        dist = np.min(np.abs(xs[:, :, None] - centres.T[None, :, :]), axis=2)
        mixed = int(np.sum(np.any(nearest != nearest[:, :1], axis=1)))
        if xs.shape != (n, dim) or mixed or np.any(dist > 12.0):
            rep.violation({"family": "VmapMixture", "what": "a draw does not come from one component"},
                          f"VmapMixture of {kcomp} Normal components in {dim} dimensions, centres 1000 apart: {mixed} of {n} draws combine "
                          f"coordinates of different components (largest distance to the nearest centre {dist.max():.1f})")
            continue
        freq = np.bincount(nearest[:, 0], minlength=kcomp) / n
        p = w / w.sum()
        if np.any(np.abs(freq - p) > 8 * np.sqrt(p * (1 - p) / n)):
            rep.violation({"family": "VmapMixture", "what": "component frequencies"},
                          f"VmapMixture weights {p.tolist()}: components drawn with frequencies {freq.tolist()} in {n} draws")


def after_the_parameters_moved(rep: Report, rng: random.Random, thorough: bool):
    """The accessors determine the density also after training: every trainable leaf of a named family is moved (as an
    optimiser would), the accessors are read back and log_prob must be the textbook density at those values."""
    from flowjax import distributions as ds
    from flowjax.wrappers import NonTrainable
    table = {"Normal": ("loc", "scale"), "Gumbel": ("loc", "scale"), "Cauchy": ("loc", "scale"), "Laplace": ("loc", "scale"),
             "Logistic": ("loc", "scale"), "StudentT": ("df", "loc", "scale"), "LogNormal": ("loc", "scale"),
             "Exponential": ("rate",), "Uniform": ("minval", "maxval")}
    init = {"df": [2.5, 7.0], "loc": [0.3, -1.0], "scale": [0.5, 2.0], "rate": [0.7, 3.0], "minval": [-1.0, 0.5], "maxval": [2.0, 4.0]}
    for fam, names in table.items():
        for rep_i in range(4 if thorough else 2):
            rs = np.random.default_rng(rng.randrange(2**31))
            d = getattr(ds, fam)(*[jnp.asarray(init[n]) for n in names])
            params, static = eqx.partition(d, eqx.is_inexact_array, is_leaf=lambda leaf: isinstance(leaf, NonTrainable))
            leaves, td = jax.tree_util.tree_flatten(params)
            moved = [leaf + jnp.asarray(rs.normal(size=leaf.shape) * [0.3, 1.5][rep_i % 2]) for leaf in leaves]
            d2 = eqx.combine(jax.tree_util.tree_unflatten(td, moved), static)
            try:
                if fam == "LogNormal":      # no accessors of its own: the documented composition Exp after Affine(loc, scale)
                    from flowjax.wrappers import unwrap
                    try:
                        aff = unwrap(d2.bijection[0])
                        aff.loc, aff.scale
                    except Exception:  # noqa: BLE001   (an implementation detail, not an accessor the property names)
                        rep.note("model-drift Families: LogNormal is no longer Chain([Affine(loc, scale), Exp]); its parameters after training are not read back")
                        break
                    acc = [np.asarray(aff.loc, float).reshape(-1).tolist(), np.asarray(aff.scale, float).reshape(-1).tolist()]
                else:
                    acc = [np.asarray(getattr(d2, n), float).reshape(-1).tolist() for n in names]
                if fam == "LogNormal":
                    xs = np.exp(rs.normal(size=2))
                elif fam == "Exponential":
                    xs = rs.uniform(0.1, 3.0, size=2)
                elif fam == "Uniform":
                    xs = np.asarray(acc[0]) + rs.uniform(0.1, 0.9, size=2) * (np.asarray(acc[1]) - np.asarray(acc[0]))
                else:
                    xs = rs.normal(size=2) * 3
                lp = float(d2.log_prob(jnp.asarray(xs)))
            except Exception as e:  # noqa: BLE001
                rep.violation({"family": fam, "what": "after the parameters moved", "error": type(e).__name__},
                              f"{fam} after moving {len(leaves)} trainable leaves: {type(e).__name__}: {str(e)[:200]}")
                continue
            rep.count(1, ("moved", fam, rep_i))
            ref = textbook(fam, acc, xs.tolist())
            if not abs(lp - ref) <= 1e-9 * (1 + abs(ref)):
                rep.violation({"family": fam, "what": "density is not the textbook density at the accessor values after the parameters moved"},
                              f"{fam}: after moving all {len(leaves)} trainable leaves the accessors read "
                              f"{dict(zip(names, acc))}; log_prob({xs.tolist()}) = {lp}, the textbook density at those values is {ref}")


def rejection_loop(rep: Report, rng: random.Random):
    """Beyond the listed properties (DESIGN 4.11): the rejection loop of GaussianMixtureSimulator.sample_reference_posterior
    (Rejection.tla): exactly num_samples rows are returned, all inside the Uniform prior's support, also when the
    observation sits next to the prior bound so that many candidates are rejected."""
    from flowjax.tasks import GaussianMixtureSimulator
    r = tlc.run("Rejection", "MC_Rejection.cfg", workers=4, timeout=300)
    if r.violated:
        rep.machinery_failure(f"Rejection.tla violates {r.violated}")
        return
    rep.add("states", r.distinct)
    rep.add("transitions", r.generated)
    for i, (obs, n) in enumerate([((0.0, 0.0), 7), ((9.9, 9.9), 12), ((-10.0, 9.7), 5), ((10.4, 0.0), 9)]):
        sim = GaussianMixtureSimulator()
        try:
            s = np.asarray(sim.sample_reference_posterior(jr.PRNGKey(rng.randrange(2**31)), jnp.asarray(obs), n))
        except Exception as e:  # noqa: BLE001
            rep.violation({"task": "sample_reference_posterior", "observation": obs, "error": type(e).__name__}, f"{type(e).__name__}: {str(e)[:200]}")
            continue
        rep.count(1, ("rejection", obs, n))
        if s.shape != (n, 2) or not np.all(np.abs(s) <= 10.0):
            rep.violation({"task": "sample_reference_posterior", "observation": obs},
                          f"sample_reference_posterior(observation={obs}, num_samples={n}) returned shape {s.shape}, max |value| {np.abs(s).max() if s.size else None}")


def main():
    ap = argparse.ArgumentParser()
    ap.add_argument("--replay")
    a = ap.parse_args()
    t = tier()
    rep = Report(PID, t, "exploration")
    rng = random.Random(rep.seed)
    if a.replay:
        payload = json.loads(open(a.replay).read())
        print(json.dumps(payload, indent=1)[:3000])
        if "case" in payload.get("replay", {}):
            check_case(rep, payload["replay"]["case"])
        rep.count(2, "replay-a"), rep.count(0, "replay-b")
        rep.set("rule", "replay")
        return rep.finish()
    r = tlc.run("Families", "MC_Families.cfg", workers=8, timeout=900, coverage=False)
    rep.set("tlc_runs", {"MC_Families.cfg": {"distinct": r.distinct, "generated": r.generated, "result": r.violated or "no error", "cases": len(r.cases)}})
    if r.violated:
        rep.machinery_failure(f"Families.tla violates {r.violated}")
        return rep.finish()
    rep.set("states", r.distinct)
    rep.set("transitions", r.generated)
    seen = set()
    for c in r.cases:
        k = json.dumps([c["f"], c["ps"], c["x"]])
        if k in seen:
            continue
        seen.add(k)
        rep.sample({"kind": "spec->code", "tlc_case": c}, 4)
        check_case(rep, c)
    accessors_and_more(rep, rng)
    mixture_draws_are_joint(rep, rng)
    after_the_parameters_moved(rep, rng, t == "thorough")
    rejection_loop(rep, rng)
    rep.set("exhaustive", True)
    rep.set("rule", "one case per (family, parameter configuration, point) state of the TLC run, judged against the textbook "
                    "term; plus accessors, MultivariateNormal, mixtures; distinct by those keys")
    rep.assume("log, exp, lgamma, log1p are evaluated with math / NumPy in float64 (trusted base); SciPy was used once, at build "
               "time, to validate the textbook formulas in this file")
    rep.assume("the clause 'samples follow that density' is NOT decided by this check in general: only structural necessary "
               "conditions are (a location-scale draw is loc + scale * the standard draw of the same key; a mixture draw lies "
               "next to a single component and components are drawn with the frequencies of the weights, at 8 sigma)")
    return rep.finish()


if __name__ == "__main__":
    sys.exit(main_guard(PID, main))
