"""Common main of the generator-role checks (C01, C02, C14, C18): TLC supplies the compositions (Combinators.tla builder
machine) and the classification of boundary points (Elementary.tla); the population is built by harness/zoo.py and each
case is judged by the property's own definition on the real code (harness/genchecks.py)."""

from __future__ import annotations

import argparse
import json
import random
import sys

import jax

jax.config.update("jax_enable_x64", True)

from engine import pool, tlc  # noqa: E402
from engine.report import Report, main_guard, tier  # noqa: E402
from harness import zoo  # noqa: E402


def run(pid: str, fname: str, rule: str, assumptions: list, extra=None):
    def main():
        ap = argparse.ArgumentParser()
        ap.add_argument("--replay")
        a = ap.parse_args()
        t = tier()
        rep = Report(pid, t, "exploration")
        if a.replay:
            payload = json.loads(open(a.replay).read())
            print(json.dumps(payload, indent=1)[:3000])
            spec = payload.get("replay", {}).get("spec")
            if spec:
                from harness import genchecks
                getattr(genchecks, fname)(rep, spec)
            rep.count(2, "replay-a"), rep.count(0, "replay-b")
            rep.sample({"kind": "replay", "spec": spec})
            rep.set("rule", rule)
            return rep.finish()
        r = tlc.run("MC_Combinators", "MC_Combinators_d1.cfg", workers=16, timeout=1200, coverage=False)
        if r.violated:
            rep.machinery_failure(f"Combinators.tla violates {r.violated}")
            return rep.finish()
        e = tlc.run("MC_Elementary", "MC_Elementary_fixed.cfg", workers=8, timeout=600, coverage=False)
        if e.violated:
            rep.machinery_failure(f"Elementary.tla violates {e.violated}")
        rep.set("generator", {"combinators_programs": len(r.cases), "combinators_states": r.distinct,
                              "elementary_states": e.distinct,
                              "boundary_classes": sorted({b["class"] for c in e.cases if c["kind"] == "spline" for b in c["v"]["boundary"]})})
        specs = zoo.specs(t, rep.seed, r.cases)
        rep.set("population", {"leaf": sum(1 for s in specs if s["src"] == "leaf"), "prog": sum(1 for s in specs if s["src"] == "prog"),
                               "flow": sum(1 for s in specs if s["src"] == "flow")})
        for s in specs[:2] + specs[-2:]:
            rep.sample({"kind": "population spec", "spec": s}, 4)
        pool.map_cases(rep, "harness.genchecks", fname, specs, chunk=4, clear_every=6, maxtasks=4)
        if fname in ("case_c01", "case_c18"):
            # the library's default mode: the same cases in workers started without x64 (float32 arrays throughout)
            sub = [s for s in specs if s["src"] != "prog"] + [s for s in specs if s["src"] == "prog"][:(60 if t == "thorough" else 12)]
            before = rep.evaluations
            pool.map_cases(rep, "harness.genchecks", fname, sub, chunk=4, clear_every=6, maxtasks=4, x64=False)
            rep.set("float32_pass", {"specs": len(sub), "evaluations": rep.evaluations - before})
        if extra:
            extra(rep, random.Random(rep.seed), t)
        rep.set("rule", rule)
        for s in assumptions:
            rep.assume(s)
        return rep.finish()
    sys.exit(main_guard(pid, main))
