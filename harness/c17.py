"""C17 -- loss functions compute their defining estimators.

design      Losses.tla (TLC): choosing, for every row, n_contrastive rows among the OTHER rows without replacement gives
            NeverItself / ExactlyN / OthersOfTheBatch; both ELBO estimators see the samples of the key they are given.
code->spec  ContrastiveLoss is run on a tagged conditional distribution (user-supplied, public extension point) that
            records the (x-tag, condition-tag) pair of every log q(x | condition) it is asked for; the sorted records of
            every run (batch sizes 2..8, n_contrastive 1..batch-1, several keys) are validated by Trace_Losses
            (positive exactly once, exactly n distinct other rows, value = the defining softmax cross-entropy recomputed
            from the recorded sets, value >= 0).
public-API  MaximumLikelihoodLoss = -mean(dist.log_prob(x, c)); ElboLoss = mean over dist.sample_and_log_prob(key, (n,))
oracles     of log q - target, identical with stick-the-landing; the STL gradient equals the gradient of the path-only
            surrogate and differs from the plain gradient by the mean score term.
"""

from __future__ import annotations

import argparse
import json
import random
import sys

import jax

jax.config.update("jax_enable_x64", True)

import equinox as eqx  # noqa: E402
import jax.numpy as jnp  # noqa: E402
import jax.random as jr  # noqa: E402
import numpy as np  # noqa: E402
from scipy.special import logsumexp  # noqa: E402

from engine import tlc, tracecheck  # noqa: E402
from engine.report import Report, main_guard, tier  # noqa: E402

PID = "C17"
P_GUARDS = ["RowsOfTheBatch", "NeverItself", "Distinct", "ExactlyN", "PositiveOnce", "EveryRowOnce", "ValueIsCrossEntropy",
            "NonNegative"]
LOG: list = []


def tagged_dist(dim: int):
    from flowjax.distributions import AbstractDistribution

    class Tagged(AbstractDistribution):
        """q(x | c) = N(x; w * c_rest, 1) on the non-tag coordinates; coordinate 0 of x and of c carry the row tags."""
        shape: tuple
        cond_shape: tuple
        w: jax.Array

        def _log_prob(self, x, condition=None):
            jax.debug.callback(lambda a, b: LOG.append((int(round(float(a))), int(round(float(b))) - 1000)), x[0], condition[0])
            r = x[1:] - self.w * condition[1:]
            return -0.5 * jnp.sum(r**2) - 0.5 * (x.shape[0] - 1) * jnp.log(2 * jnp.pi)

        def _sample(self, key, condition=None):
            return jnp.concatenate([jnp.zeros(1), self.w * condition[1:] + jr.normal(key, (self.shape[0] - 1,))])

    return Tagged((dim,), (dim,), jnp.asarray(0.7))


_PRIOR_CLS = []


def tagged_prior(dim: int, scale: float = 2.0):
    """Instances of ONE class (the same pytree structure) that differ in the value of an array leaf only."""
    if _PRIOR_CLS:
        return _PRIOR_CLS[0]((dim,), None, jnp.asarray(float(scale)))
    from flowjax.distributions import AbstractDistribution

    class Prior(AbstractDistribution):
        shape: tuple
        cond_shape: None
        s: jax.Array          # the prior's scale: an array leaf, different from run to run (same pytree structure)

        def _log_prob(self, x, condition=None):
            return -0.5 * jnp.sum((x[1:] / self.s) ** 2) - (x.shape[0] - 1) * jnp.log(self.s) - 0.5 * (x.shape[0] - 1) * jnp.log(2 * jnp.pi)

        def _sample(self, key, condition=None):
            return jnp.concatenate([jnp.zeros(1), self.s * jr.normal(key, (self.shape[0] - 1,))])

    _PRIOR_CLS.append(Prior)
    return Prior((dim,), None, jnp.asarray(float(scale)))


_JIT_CALL = eqx.filter_jit(lambda loss, p, s, x, c, k: loss(p, s, x, c, k))


def contrastive_runs(rep: Report, rng: random.Random, thorough: bool):
    from flowjax.train.losses import ContrastiveLoss
    dim = 3
    d, prior = tagged_dist(dim), tagged_prior(dim)
    params, static = eqx.partition(d, eqx.is_inexact_array)
    traces = []
    for b in range(2, 9):
        for n in range(1, b):
            for rep_i in range(6 if thorough else 2):
                rs = np.random.default_rng(rng.randrange(2**31))
                # odd repetitions: rows far apart, so that logits differ by thousands of nats (a sharp posterior and a row
                # in its tail): the cross-entropy is still finite, about the largest logit gap
                spread = [1.0, 40.0, 1.0, 300.0, 1.0, 8.0][rep_i]
                x = rs.normal(size=(b, dim)) * spread
                c = rs.normal(size=(b, dim)) * spread
                x[:, 0] = np.arange(b)
                c[:, 0] = np.arange(b) + 1000
                LOG.clear()
                key = jr.PRNGKey(int(rs.integers(2**31)))
                ps = [2.0, 0.75, 3.5, 1.25][(b + n + rep_i) % 4]          # a new loss object with another prior of the same structure each run
                prior = tagged_prior(dim, ps)
                runs_done = len(traces)
                if runs_done and runs_done % 16 == 0:       # every loss object compiles its own executables: keep the process's
                    import gc                               # memory maps below vm.max_map_count (DESIGN 3.2b)
                    jax.clear_caches()
                    gc.collect()
                loss_obj = ContrastiveLoss(prior, n)
                try:
                    val = float(loss_obj(params, static, jnp.asarray(x), jnp.asarray(c), key))
                    jax.effects_barrier()
                except Exception as e:  # noqa: BLE001
                    rep.violation({"loss": "ContrastiveLoss", "batch": b, "n_contrastive": n, "error": type(e).__name__},
                                  f"ContrastiveLoss(batch={b}, n_contrastive={n}) raised {type(e).__name__}: {str(e)[:200]}")
                    continue
                pairs = sorted((cc, xx) for xx, cc in LOG)
                # value recomputed from the recorded sets with the defining formula
                lq = lambda xi, ci: -0.5 * np.sum((x[xi, 1:] - 0.7 * c[ci, 1:]) ** 2) - 0.5 * (dim - 1) * np.log(2 * np.pi)  # noqa: E731
                lp = lambda xi: -0.5 * np.sum((x[xi, 1:] / ps) ** 2) - (dim - 1) * np.log(ps) - 0.5 * (dim - 1) * np.log(2 * np.pi)  # noqa: E731
                tot, ok_rows = 0.0, True
                for i in range(b):
                    xs_i = [xx for cc, xx in pairs if cc == i]
                    if xs_i.count(i) < 1:
                        ok_rows = False
                        continue
                    contr = list(xs_i)
                    contr.remove(i)
                    pos = lq(i, i) - lp(i)
                    logits = [lq(j, i) - lp(j) for j in contr] + [pos]
                    tot += -(pos - logsumexp(logits))
                ref = tot / b
                matches = ok_rows and abs(val - ref) <= 1e-10 * (1 + abs(ref))
                # the same loss object handed to a jitted function as an argument (what the training step does): every loss
                # object must be evaluated with ITS prior, not with one cached from an earlier object that looks alike
                try:
                    vj = float(_JIT_CALL(loss_obj, params, static, jnp.asarray(x), jnp.asarray(c), key))
                    jax.effects_barrier()
                    if not abs(vj - val) <= 1e-9 * (1 + abs(val)):
                        rep.violation({"loss": "ContrastiveLoss", "batch": b, "n_contrastive": n, "what": "value under jit with the loss as an argument"},
                                      f"ContrastiveLoss(prior scale {ps}, n_contrastive={n}) on a batch of {b}: {val} when called directly, {vj} when the "
                                      f"same object is passed to a jitted function (as the training step does)")
                except Exception as e:  # noqa: BLE001
                    rep.violation({"loss": "ContrastiveLoss", "batch": b, "n_contrastive": n, "error": type(e).__name__},
                                  f"ContrastiveLoss passed to a jitted function raised {type(e).__name__}: {str(e)[:200]}")
                traces.append({"cfg": {"b": b, "n": n, "spread": spread}, "ev": [{"c": cc, "x": xx} for cc, xx in pairs],
                               "ret": {"value_matches": bool(matches), "nonneg": bool(val >= -1e-12), "value": val, "reference": ref}})
                rep.count(1, ("contrastive", b, n, rep_i) if n < b - 1 else None)
    return traces


def other_losses(rep: Report, rng: random.Random, thorough: bool):
    from flowjax import distributions as ds
    from flowjax import flows
    from flowjax.bijections import RationalQuadraticSpline
    from flowjax.train.losses import ElboLoss, MaximumLikelihoodLoss
    from harness import c03
    for i in range(12 if thorough else 6):
        rs = np.random.default_rng(rng.randrange(2**31))
        cond = [None, None, 2][i % 3]
        dim = 2 + i % 2
        kind = i % 3
        k = jr.PRNGKey(int(rs.integers(2**31)))
        if kind == 0:
            d = flows.masked_autoregressive_flow(k, base_dist=ds.Normal(jnp.zeros(dim)), cond_dim=cond, flow_layers=2, nn_width=5, invert=False)
        elif kind == 1:
            d = flows.coupling_flow(k, base_dist=ds.Normal(jnp.zeros(dim)), cond_dim=cond, flow_layers=2, nn_width=5,
                                    transformer=RationalQuadraticSpline(knots=3, interval=3))
        else:
            d = ds.Normal(jnp.asarray(rs.normal(size=dim)), jnp.asarray(rs.uniform(0.5, 2, size=dim)))
            cond = None
        d = c03.perturb(d, rs, 0.2)
        params, static = eqx.partition(d, eqx.is_inexact_array)
        x = jnp.asarray(rs.normal(size=(7, dim)))
        c = None if cond is None else jnp.asarray(rs.normal(size=(7, cond)))
        name = ["masked_autoregressive_flow", "coupling_flow(spline)", "Normal"][kind] + f"/cond={cond}"
        try:
            ml = float(MaximumLikelihoodLoss()(params, static, x, c))
            ref = -float(np.mean(np.asarray(d.log_prob(x, c))))
            rep.count(1, ("ml", name))
            if abs(ml - ref) > 1e-10 * (1 + abs(ref)):
                rep.violation({"loss": "MaximumLikelihoodLoss", "model": name},
                              f"MaximumLikelihoodLoss on {name} = {ml}; -mean(log_prob) = {ref}")
        except Exception as e:  # noqa: BLE001
            rep.violation({"loss": "MaximumLikelihoodLoss", "model": name, "error": type(e).__name__}, f"{type(e).__name__}: {str(e)[:200]}")
        if cond is not None:
            continue
        # "the negative of the potential function, evaluated for a single point": every other case uses a target that
        # is NOT batch-safe (it sums over everything it is given), so a loss that calls it on the whole batch is exposed
        target = ds.Normal(jnp.ones(dim) * 0.3, 1.5).log_prob if i % 2 else (lambda xx: -0.5 * jnp.sum((xx - 0.3) ** 2) / 2.25)
        n = 40
        try:
            e1 = float(ElboLoss(target, n)(params, static, k))
            e2 = float(ElboLoss(target, n, stick_the_landing=True)(params, static, k))
            s, lq = d.sample_and_log_prob(k, (n,))
            ref = float(np.mean(np.asarray(lq) - np.asarray(jax.vmap(target)(s))))
            rep.count(1, ("elbo", name))
            if abs(e1 - ref) > 1e-9 * (1 + abs(ref)) or abs(e2 - ref) > 1e-9 * (1 + abs(ref)):
                rep.violation({"loss": "ElboLoss", "model": name, "what": "value"},
                              f"ElboLoss on {name}: plain {e1}, stick-the-landing {e2}; mean over sample_and_log_prob(key, "
                              f"({n},)) of log q - target = {ref}")
            # gradients: STL = path-only surrogate; plain - STL = mean score term
            g_plain = eqx.filter_grad(lambda p: ElboLoss(target, n)(p, static, k))(params)
            g_stl = eqx.filter_grad(lambda p: ElboLoss(target, n, stick_the_landing=True)(p, static, k))(params)

            def surrogate(p):
                dd = eqx.combine(p, static)
                xs = dd.sample(k, (n,))
                frozen = eqx.combine(jax.lax.stop_gradient(p), static)
                return (frozen.log_prob(xs) - jax.vmap(target)(xs)).mean()

            def score(p):
                dd = eqx.combine(p, static)
                xs = jax.lax.stop_gradient(d.sample(k, (n,)))
                return dd.log_prob(xs).mean()

            g_sur = eqx.filter_grad(surrogate)(params)
            g_score = eqx.filter_grad(score)(params)
            fl = lambda g: np.concatenate([np.asarray(a).ravel() for a in jax.tree_util.tree_leaves(g)])  # noqa: E731
            a, b_, s_, sc = fl(g_plain), fl(g_stl), fl(g_sur), fl(g_score)
            scale = 1 + np.abs(a).max()
            rep.count(1, ("elbo-grad", name) if np.abs(sc).max() > 1e-6 else None)
            if np.abs(b_ - s_).max() > 1e-8 * scale:
                rep.violation({"loss": "ElboLoss", "model": name, "what": "stick-the-landing gradient"},
                              f"ElboLoss(stick_the_landing=True) on {name}: gradient differs from the path-only surrogate by "
                              f"{np.abs(b_ - s_).max():.3e} (it should omit the score-function term)")
            if np.abs((a - b_) - sc).max() > 1e-7 * scale:
                rep.violation({"loss": "ElboLoss", "model": name, "what": "plain - STL != score term"},
                              f"ElboLoss on {name}: plain minus stick-the-landing gradient differs from the mean score gradient "
                              f"by {np.abs((a - b_) - sc).max():.3e}")
        except Exception as e:  # noqa: BLE001
            rep.violation({"loss": "ElboLoss", "model": name, "error": type(e).__name__}, f"ElboLoss on {name}: {type(e).__name__}: {str(e)[:300]}")


def main():
    ap = argparse.ArgumentParser()
    ap.add_argument("--replay")
    a = ap.parse_args()
    t = tier()
    thorough = t == "thorough"
    rep = Report(PID, t, "exploration")
    rng = random.Random(rep.seed)
    if a.replay:
        payload = json.loads(open(a.replay).read())["replay"]
        print(json.dumps(payload, indent=1)[:3000])
        if "trace" in payload:
            tracecheck.check(rep, "Trace_Losses", "Trace_Losses_I.cfg", [payload["trace"]], P_GUARDS, pid=PID)
        rep.count(2, "replay-a"), rep.count(0, "replay-b")
        rep.set("rule", "replay")
        return rep.finish()
    r = tlc.run("Losses", "MC_Losses.cfg", workers=8, timeout=600)
    rep.set("tlc_runs", {"MC_Losses.cfg": {"distinct": r.distinct, "generated": r.generated, "result": r.violated or "no error"}})
    if r.violated:
        rep.machinery_failure(f"Losses.tla violates {r.violated}")
    traces = contrastive_runs(rep, rng, thorough)
    stats = tracecheck.check(rep, "Trace_Losses", "Trace_Losses_I.cfg", traces, P_GUARDS, pid=PID,
                             describe=lambda tr: {"batch": tr["cfg"]["b"], "n_contrastive": tr["cfg"]["n"]})
    rep.set("traces_validated_against_impl", len(traces))
    rep.set("trace_validation", stats)
    rep.set("states", r.distinct)
    rep.set("transitions", r.generated)
    if traces:
        rep.sample({"kind": "code->spec contrastive pairs", "trace": traces[len(traces) // 2]}, 3)
    other_losses(rep, rng, thorough)
    rep.set("rule", "contrastive: one trace per (batch size 2..8, n_contrastive 1..batch-1, key); non-trivial = n_contrastive < "
                    "batch - 1 (the index sets have freedom); other losses: one case per (loss, model)")
    rep.assume("the tagged distribution and prior are user-supplied AbstractDistribution subclasses (public extension point)")
    return rep.finish()


if __name__ == "__main__":
    sys.exit(main_guard(PID, main))
