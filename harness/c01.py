"""C01 -- every bijection is invertible: inverse undoes transform, both ways.  See harness/genmain.py, genchecks.case_c01."""
from harness import genmain

if __name__ == "__main__":
    genmain.run("C01", "case_c01",
                "one evaluation per (bijection, point, direction); the population is every leaf class x parameter regime "
                "(boundary-directed + generic points), TLC-enumerated compositions with real leaves filled in, and the "
                "bijection of every flow factory x invert x condition x transformer; non-trivial = a well-conditioned point "
                "(cond <= 1e11) at which a round trip was actually compared; distinct by (bijection, point class)",
                ["tolerance 256 eps (1 + |x| + |y|) cond(J), J the autodiff Jacobian at the point; bisection-inverted maps: "
                 "the per-coordinate error recursion from the forward Jacobian (tol 1e-7) with factor 4",
                 "points whose forward image overflows or whose Jacobian has cond > 1e11 carry no finite-precision promise"])
