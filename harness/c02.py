"""C02 -- reported log-determinants equal the true log|det Jacobian|.  See harness/genmain.py, genchecks.case_c02."""
from harness import genmain

if __name__ == "__main__":
    genmain.run("C02", "case_c02",
                "one evaluation per (bijection, point); oracle = slogdet of jax.jacobian(transform) in float64, one-sided "
                "(float neighbours) at points the specification classifies as kinks; non-trivial = the reference log-det is "
                "not 0; distinct by (bijection, point class)",
                ["at a kink of a piecewise definition (spline interval end with boundary derivative != 1, planar leaky-relu "
                 "hyperplane) the reported value must equal one of the two one-sided limits",
                 "tolerance 1e-8 (1 + |ld|) + 1e3 eps cond(J)"])
