"""Shared machinery of C08 (combinators mean what their definitions say) and C13 (malformed inputs are rejected):
TLC runs of Combinators.tla and the replay of every printed program into the real classes."""

from __future__ import annotations

import json
import math
import random

import jax
import jax.numpy as jnp
import numpy as np

from engine import build, tlc
from engine.report import Report

LN2 = math.log(2.0)
METHODS = ("transform", "inverse", "transform_and_log_det", "inverse_and_log_det")


def run_tlc(rep: Report, thorough: bool, want_cases=True):
    """Exhaustive depth 1 (quick) / depth 2 (thorough) + the as-found shape formulas (expected to be refuted)."""
    per, cases = {}, []
    runs = [("MC_Combinators_d2.cfg" if thorough else "MC_Combinators_d1.cfg", None),
            ("MC_Combinators_asfound.cfg", "DeclaredShapeIsSemantic")]
    for cfg, expect in runs:
        r = tlc.run("MC_Combinators", cfg, workers=16, timeout=3400, coverage=False)
        per[cfg] = {"distinct": r.distinct, "generated": r.generated, "depth": r.depth, "wall_s": round(r.wall_s, 1),
                    "result": r.violated or "no error", "cases": len(r.cases)}
        if expect:
            if r.violated != expect:
                rep.machinery_failure(f"{cfg}: TLC was expected to refute {expect} (the shape formulas as found at the "
                                      f"pinned commit), got {r.violated}")
            continue
        if r.violated:
            rep.machinery_failure(f"the specification itself violates {r.violated} under {cfg}")
            continue
        rep.add("states", r.distinct)
        rep.add("transitions", r.generated)
        cases = r.cases
    rep.set("tlc_runs", per)
    return cases


def chain_nests(rep: Report, rng: random.Random, budget: int):
    """Every Chain / Invert nesting to depth 3 (exhaustive, cheap): the programs on which merge_chains, slicing and
    indexing have something to do.  Returns a sample that always contains inverted chains inside chains."""
    r = tlc.run("MC_Combinators", "MC_Combinators_chains.cfg", workers=16, timeout=1200, coverage=False)
    if r.violated:
        rep.machinery_failure(f"Combinators (chains focus) violates {r.violated}")
        return []
    rep.add("states", r.distinct)
    rep.add("transitions", r.generated)

    def has_inverted_chain(q):
        if q["k"] == "invert" and q["p"]["k"] == "chain":
            return True
        return any(has_inverted_chain(p) for p in q.get("parts", [])) or ("p" in q and has_inverted_chain(q["p"]))

    cases = [c for c in r.cases if c["r"]["valid"] and c["prog"]["k"] == "chain" and c["depth"] >= 2]
    special = [c for c in cases if has_inverted_chain(c["prog"])]
    rest = [c for c in cases if not has_inverted_chain(c["prog"])]
    pick = (special if len(special) <= budget // 2 else rng.sample(special, budget // 2)) + \
           (rest if len(rest) <= budget // 2 else rng.sample(rest, budget // 2))
    rep.set("chain_nests", {"enumerated": len(cases), "with_inverted_chain": len(special), "replayed": len(pick)})
    return pick


def simulate_deeper(rep: Report, depth: int, num: int, seed: int):
    """Programs of depth 3 from TLC's random simulation of the same machine (the exhaustive run stops at depth 2).
    In simulation mode TLC evaluates the Emit constraint on every candidate successor, so `num` behaviours give about
    a hundred programs each."""
    r = tlc.run("MC_Combinators", "MC_Combinators_d3.cfg", workers=8, timeout=900, coverage=False,
                simulate=f"num={num}", depth=depth + 1, seed=seed)
    if r.violated:
        rep.machinery_failure(f"simulation of depth-{depth} programs violates {r.violated}")
        return []
    seen, out = set(), []
    for c in r.cases:
        k = json.dumps(c["prog"], sort_keys=True)
        if k not in seen and c["depth"] >= 2:
            seen.add(k)
            out.append(c)
    rep.set("simulated_programs", len(out))
    return out


def describe(q) -> str:
    k = q["k"]
    if k in ("aff", "cadd", "perm", "flip", "ident", "scan", "tril", "triu"):
        return f"{k}{tuple(q['shape'])}"
    if k in ("chain", "concat", "stack"):
        ax = "" if k == "chain" else f",axis={q['axis']}"
        return f"{k}[{','.join(describe(p) for p in q['parts'])}{ax}]"
    if k == "vmap":
        return f"vmap[{describe(q['p'])},n={q['n']},mapped={q['mapped']},cax={q['cax']}]"
    if k == "partial":
        return f"partial[{describe(q['p'])},{q['idx']},shape={tuple(q['shape'])}]"
    if k == "reshape":
        return f"reshape[{describe(q['p'])},{tuple(q['shape'])},{q['cs']}]"
    if k == "embed":
        return f"embed[{describe(q['p'])},{tuple(q['rawcs'])}]"
    return f"{k}[{describe(q['p'])}]"


def top_kind(q):
    return q["k"] + ("/" + q["p"]["k"] if "p" in q else "") + ("/" + "+".join(p["k"] for p in q["parts"]) if "parts" in q else "")


def key_of(c):
    q = c["prog"]
    return {"program": describe(q)}
