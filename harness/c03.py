"""C03 -- transformed densities obey change of variables on both evaluation paths.

design      TLC over nested Transformed(base, bijection) expressions (Flows.tla) with the exact combinator semantics and
            an exact-integer base: PathsAgree (joint path = sampling path + log_prob path), MergeTransformsSame,
            CondPropagates, InverseExact.
spec->code  every expression TLC prints is built from the real Transformed / combinators around an exact base
            distribution (a user-defined AbstractDistribution: linear log-density, deterministic draw); log_prob at
            TLC's support point, sample and sample_and_log_prob must equal TLC's integers (log-dets: log2 units x ln 2),
            and merge_transforms must not change any of them.
real flows  all five factories x invert x {unconditional, cond_dim 2} x transformer {affine, spline} x dim 1-3 with
            perturbed parameters: the property's statement evaluated with the distribution's own public parts
            (base_dist, bijection): log_prob = base log-density at the inverse image + inverse log-det;
            sample(key) = transform(base sample for that key); sample_and_log_prob = (s, log_prob(s)).
"""

from __future__ import annotations

import argparse
import json
import math
import random
import sys

import jax

jax.config.update("jax_enable_x64", True)

import equinox as eqx  # noqa: E402
import jax.numpy as jnp  # noqa: E402
import jax.random as jr  # noqa: E402
import numpy as np  # noqa: E402

from engine import build, pool, shim, tlc  # noqa: E402
from engine.report import Report, main_guard, tier  # noqa: E402

PID = "C03"
LN2 = math.log(2.0)
U = 1024


def exact_base(shape, cond: bool, kid: int):
    from flowjax.distributions import AbstractDistribution

    class ExactBase(AbstractDistribution):
        shape: tuple
        cond_shape: tuple | None
        kid: int

        def _log_prob(self, x, condition=None):
            w = jnp.arange(1, x.size + 1, dtype=float).reshape(x.shape)
            lp = -jnp.sum(w * x)
            if self.cond_shape is not None:
                lp = lp - jnp.sum(jnp.arange(1, condition.size + 1, dtype=float) * jnp.ravel(condition))
            return lp

        def _sample(self, key, condition=None):
            n = int(np.prod(self.shape))
            i = jnp.arange(1, n + 1, dtype=float)
            z = U * (7 * self.kid + 3 * i + 1)
            if self.cond_shape is not None:
                c = jnp.ravel(condition)
                m = jnp.arange(1, c.size + 1, dtype=float)
                z = z + jnp.sum((m[None, :] + i[:, None]) * c[None, :], axis=1)
            return z.reshape(self.shape)

    return ExactBase(tuple(shape), (2,) if cond else None, kid)


def mk_dist(q, kid):
    from flowjax.distributions import Transformed
    if q["k"] == "base":
        return exact_base(build.shape_of(q["shape"]), q["cond"], kid)
    return Transformed(mk_dist(q["base"], kid), build.mk(q["bij"]))


def describe(q):
    from harness import comb
    if q["k"] == "base":
        return f"base{tuple(q['shape'])}{'|c' if q['cond'] else ''}"
    return f"T({describe(q['base'])}, {comb.describe(q['bij'])})"


def check_case(rep, c: dict):
    q, r = c["dist"], c["r"]
    desc = describe(q)
    key = {"dist": desc}
    shape, cs = build.shape_of(r["shape"]), build.cshape_of(r["cs"])
    try:
        d = mk_dist(q, r["key"])
        d5 = mk_dist(q, 5)
    except Exception as e:  # noqa: BLE001
        rep.violation({**key, "what": "constructor", "error": type(e).__name__}, f"{desc}: {type(e).__name__}: {e}", {"case": c})
        return
    x = build.arr(r["x"], shape)
    cnd = None if cs is None else build.arr(r["c"], cs)
    k = jr.PRNGKey(0)
    nontriv = ("dist", desc) if c["nest"] >= 1 and r["lp"]["ld2"] != 0 else None
    rep.count(1, nontriv)
    rep.sample({"kind": "spec->code", "dist": desc, "tlc": r}, 3)

    def close(a, b):
        return abs(a - b) <= 1e-9 * (1 + abs(b))

    variants = [("as built", d)]
    if c["nest"] >= 2:
        try:
            variants.append(("merge_transforms", d.merge_transforms()))
        except Exception as e:  # noqa: BLE001
            rep.violation({**key, "what": "merge_transforms raises", "error": type(e).__name__}, f"{desc}: {e}")
    for vname, dv in variants:
        try:
            lp = float(dv.log_prob(x, cnd))
            s = np.asarray(dv.sample(k, (), cnd))
            js, jl = dv.sample_and_log_prob(k, (), cnd)
            js, jl = np.asarray(js), float(jl)
        except Exception as e:  # noqa: BLE001
            rep.violation({**key, "variant": vname, "what": "method raises", "error": type(e).__name__},
                          f"{desc} [{vname}]: {type(e).__name__}: {str(e)[:300]}", {"case": c})
            continue
        exp_lp = r["lp"]["lin"] + r["lp"]["ld2"] * LN2
        exp_jl = r["joint"]["lp"]["lin"] + r["joint"]["lp"]["ld2"] * LN2
        if not close(lp, exp_lp):
            rep.violation({**key, "variant": vname, "what": "log_prob"},
                          f"{desc} [{vname}]: log_prob(x) = {lp}; change of variables gives {r['lp']['lin']} + "
                          f"{r['lp']['ld2']} ln 2 = {exp_lp}", {"case": c})
        if s.shape != shape or not np.array_equal(s.ravel(), np.array(r["sample"], dtype=float)):
            rep.violation({**key, "variant": vname, "what": "sample"},
                          f"{desc} [{vname}]: sample = {s.ravel().tolist()}; the bijection applied to the base draw is "
                          f"{r['sample']}", {"case": c})
        if not np.array_equal(js.ravel(), np.array(r["joint"]["x"], dtype=float)) or not close(jl, exp_jl):
            rep.violation({**key, "variant": vname, "what": "sample_and_log_prob"},
                          f"{desc} [{vname}]: sample_and_log_prob = ({js.ravel().tolist()}, {jl}); expected "
                          f"({r['joint']['x']}, {exp_jl})", {"case": c})
    del d5


# ---------------------------------------------------------------------------------------------------------------
FACTORIES = ["coupling_flow", "masked_autoregressive_flow", "block_neural_autoregressive_flow", "planar_flow",
             "triangular_spline_flow"]


def perturb(tree, rs, scale=0.3):
    leaves, treedef = jax.tree_util.tree_flatten(tree)
    out = [l + scale * jnp.asarray(rs.normal(size=l.shape)) if eqx.is_inexact_array(l) and l.ndim >= 1 else l for l in leaves]
    return jax.tree_util.tree_unflatten(treedef, out)


def make_flow(cfg):
    from flowjax import bijections as bj
    from flowjax import distributions as ds
    from flowjax import flows
    name, dim, cond, invert, tr = cfg["factory"], cfg["dim"], cfg["cond"], cfg["invert"], cfg["transformer"]
    key = jr.PRNGKey(cfg["seed"])
    base = ds.Normal(jnp.zeros(dim)) if cfg["base"] == "normal" else ds.StudentT(jnp.full(dim, 4.0), jnp.zeros(dim), jnp.ones(dim))
    kw = dict(base_dist=base, cond_dim=cond, invert=invert)
    if name in ("coupling_flow", "masked_autoregressive_flow"):
        if tr == "spline":
            kw["transformer"] = bj.RationalQuadraticSpline(knots=4, interval=3)
        f = getattr(flows, name)(key, flow_layers=2, nn_width=6, **kw)
    elif name == "block_neural_autoregressive_flow":
        f = flows.block_neural_autoregressive_flow(key, nn_block_dim=3, flow_layers=1 if not invert else 2, **kw)
    elif name == "planar_flow":
        f = flows.planar_flow(key, flow_layers=2, negative_slope=0.1, width_size=5, depth=1, **kw)
    else:
        f = flows.triangular_spline_flow(key, flow_layers=2, knots=4, **kw)
    return f


def check_real(rep, cfg: dict):
    from flowjax.wrappers import unwrap
    name = cfg["factory"]
    desc = f"{name}(dim={cfg['dim']}, cond_dim={cfg['cond']}, invert={cfg['invert']}, transformer={cfg['transformer']}, base={cfg['base']})"
    key = {"flow": desc}
    if name in ("block_neural_autoregressive_flow", "triangular_spline_flow") and not shim.apply():
        rep.note(f"{name}: cannot be constructed in this environment (equinox shim not applicable); skipped")
        return
    rs = np.random.default_rng(cfg["seed"])
    try:
        f = perturb(make_flow(cfg), rs, 0.25)
    except Exception as e:  # noqa: BLE001
        rep.violation({**key, "what": "factory raises", "error": type(e).__name__}, f"{desc}: {type(e).__name__}: {str(e)[:300]}")
        return
    dim, cond = cfg["dim"], cfg["cond"]
    c = None if cond is None else jnp.asarray(rs.normal(size=cond))
    cb = c if f.base_dist.cond_shape is not None else None
    k = jr.PRNGKey(cfg["seed"] + 1)
    bis = name == "block_neural_autoregressive_flow"          # one direction runs the bisection inverter
    tol = 2e-4 if bis else 1e-8
    try:
        s = f.sample(k, (), c)
        z0 = f.base_dist.sample(k, (), cb)
        s_ref = f.bijection.transform(z0, c)
        x = jnp.asarray(rs.normal(size=dim)) * 0.8
        lp = float(f.log_prob(x, c))
        z, ld = f.bijection.inverse_and_log_det(x, c)
        lp_ref = float(f.base_dist.log_prob(z, cb)) + float(ld)
        js, jl = f.sample_and_log_prob(k, (), c)
        lp_js = float(f.log_prob(js, c))
    except Exception as e:  # noqa: BLE001
        rep.violation({**key, "what": "method raises", "error": type(e).__name__}, f"{desc}: {type(e).__name__}: {str(e)[:300]}")
        return
    rep.count(1, ("real", desc))
    # I (Flows.tla, factories as structure): Invert(Scan(layers)) iff invert
    if (type(f.bijection).__name__ == "Invert") != bool(cfg["invert"]):
        rep.note(f"model-drift Flows: {name}(invert={cfg['invert']}) builds a {type(f.bijection).__name__} at the top "
                 f"(the specification expects Invert(Scan(layers)) iff invert)")
    if not np.allclose(np.asarray(s), np.asarray(s_ref), rtol=1e-10, atol=1e-10):
        rep.violation({**key, "what": "sample != transform(base sample)"},
                      f"{desc}: sample(key) = {np.asarray(s)}; bijection.transform(base_dist.sample(key)) = {np.asarray(s_ref)}")
    if not abs(lp - lp_ref) <= 1e-9 * (1 + abs(lp_ref)):
        rep.violation({**key, "what": "log_prob != base log-density at the inverse image + inverse log-det"},
                      f"{desc}: log_prob(x) = {lp}; base_dist.log_prob(z) + log-det = {lp_ref}")
    if not np.allclose(np.asarray(js), np.asarray(s), rtol=1e-10, atol=1e-10):
        rep.violation({**key, "what": "sample_and_log_prob sample != sample"},
                      f"{desc}: sample_and_log_prob(key)[0] = {np.asarray(js)} differs from sample(key) = {np.asarray(s)}")
    # (the point was drawn from the distribution itself: its log-density is a finite number, and an infinite one on either
    # side must not pass through a tolerance that is relative to it)
    if not (np.isfinite(float(jl)) and np.isfinite(lp_js) and abs(float(jl) - lp_js) <= tol * (1 + abs(lp_js))):
        rep.violation({**key, "what": "sample_and_log_prob log-prob != log_prob(sample)"},
                      f"{desc}: sample_and_log_prob(key)[1] = {float(jl)}; log_prob of that sample = {lp_js}")


def real_grid(thorough: bool, rng: random.Random):
    out = []
    for name in FACTORIES:
        for invert in (True, False):
            for cond in (None, 2):
                trs = ("affine", "spline") if name in ("coupling_flow", "masked_autoregressive_flow") else ("default",)
                for tr in trs:
                    for dim in ((1, 2, 3) if thorough else (2, 3)):
                        if name == "coupling_flow" and dim == 1:
                            continue
                        for base in (("normal", "studentt") if thorough else ("normal",)):
                            out.append({"factory": name, "invert": invert, "cond": cond, "transformer": tr, "dim": dim,
                                        "base": base, "seed": rng.randrange(2**30)})
    return out


def main():
    ap = argparse.ArgumentParser()
    ap.add_argument("--replay")
    a = ap.parse_args()
    t = tier()
    thorough = t == "thorough"
    rep = Report(PID, t, "model_checking")
    rng = random.Random(rep.seed)
    if a.replay:
        payload = json.loads(open(a.replay).read())
        print(json.dumps(payload, indent=1)[:3000])
        if "case" in payload.get("replay", {}):
            check_case(rep, payload["replay"]["case"])
        rep.count(2, "replay-a"), rep.count(0, "replay-b")
        rep.set("states", 1), rep.set("transitions", 1), rep.set("traces_validated_against_impl", 0)
        return rep.finish()
    cfg = "MC_Flows_full.cfg" if thorough else "MC_Flows_quick3.cfg"
    r = tlc.run("MC_Flows", cfg, workers=16, timeout=1800, coverage=False)
    rep.set("tlc_runs", {cfg: {"distinct": r.distinct, "generated": r.generated, "wall_s": round(r.wall_s, 1),
                               "result": r.violated or "no error", "cases": len(r.cases)}})
    if r.violated:
        rep.machinery_failure(f"the specification itself violates {r.violated}")
        return rep.finish()
    rep.add("states", r.distinct)
    rep.add("transitions", r.generated)
    uniq = {}
    for c in r.cases:
        uniq.setdefault(json.dumps(c["dist"], sort_keys=True), c)
    cases = list(uniq.values())
    budget = 3200 if thorough else 300
    if len(cases) <= budget:
        picked = cases
    else:       # stratified by nesting depth: the deepest nests are where merge_transforms and path mix-ups show
        by = {}
        for c in cases:
            by.setdefault(c["nest"], []).append(c)
        picked = []
        for n in sorted(by):
            share = budget // 2 if n == max(by) else budget // (2 * max(1, len(by) - 1))
            picked += by[n] if len(by[n]) <= share else rng.sample(by[n], share)
    pool.map_cases(rep, "harness.c03", "check_case", picked, chunk=10)
    grid = real_grid(thorough, rng)
    pool.map_cases(rep, "harness.c03", "check_real", grid, chunk=4)
    rep.set("traces_validated_against_impl", 0)
    rep.set("expressions_replayed", len(picked))
    rep.set("real_flows", len(grid))
    rep.set("exhaustive", len(picked) == len(cases))
    rep.set("rule", "one case per distribution expression printed by TLC (non-trivial = at least one bijection with a "
                    "non-zero log-det) and one per real flow configuration (factory x invert x condition x transformer "
                    "x dim x base)")
    rep.assume("the exact base distribution is a user-defined AbstractDistribution (public extension point)")
    rep.assume("block_neural_autoregressive_flow and triangular_spline_flow are built under a harness-only equinox shim")
    return rep.finish()


if __name__ == "__main__":
    sys.exit(main_guard(PID, main))
