"""C08 -- combinators mean what their definitions say, for every shape and axis.

design      TLC, exhaustive over every program the builder machine of Combinators.tla grows to depth 1 (quick) /
            2 (thorough): DeclaredShapeIsSemantic, Exact, RoundTrip, LogDetsOpposite, MergeChainsSame, InvertSwaps;
            the shape formulas as found at the pinned commit are refuted by TLC (Stack / Vmap with negative axes).
spec->code  every printed program (and a simulated sample of depth-3 programs) is built from the real classes and all
            four methods must return, bit for bit, the integers TLC computed (log-dets: TLC's log2-det times ln 2);
            declared shape / cond_shape equal TLC's; merge_chains, indexing, slicing, iteration never change the function.
"""

from __future__ import annotations

import argparse
import json
import random
import sys

import jax

jax.config.update("jax_enable_x64", True)

import jax.numpy as jnp  # noqa: E402
import numpy as np  # noqa: E402

from engine import build, pool  # noqa: E402
from engine.report import Report, main_guard, tier  # noqa: E402
from harness import comb  # noqa: E402

PID = "C08"


def check_case(rep: Report, c: dict):
    q, r = c["prog"], c["r"]
    if not r["valid"]:
        return
    key = comb.key_of(c)
    desc = key["program"]
    try:
        b = build.mk(q)
    except Exception as e:  # noqa: BLE001
        rep.violation({**key, "what": "constructor rejects a valid composition", "error": type(e).__name__},
                      f"{desc}: constructor raised {type(e).__name__}: {e}", {"case": c})
        return
    shape, cs = build.shape_of(r["shape"]), build.cshape_of(r["cs"])
    nontriv = ("prog", desc) if (r["fld"] != 0 or r["fwd"] != r["x"]) else None
    rep.count(1, nontriv)
    rep.sample({"kind": "spec->code", "program": desc, "tlc": {k: r[k] for k in ("shape", "cs", "x", "c", "fwd", "fld", "inv", "ild")}}, 4)
    try:
        dshape, dcs = tuple(b.shape), (None if b.cond_shape is None else tuple(b.cond_shape))
    except Exception as e:  # noqa: BLE001
        rep.violation({**key, "what": "shape attribute", "error": type(e).__name__}, f"{desc}: {type(e).__name__}: {e}")
        return
    if dshape != shape or dcs != cs:
        rep.violation({**key, "what": "declared shape"},
                      f"{desc}: declares shape {dshape} / cond_shape {dcs}; by the combinators' definitions it is "
                      f"{shape} / {cs}", {"case": c})
        return
    x = build.arr(r["x"], shape)
    cnd = None if cs is None else build.arr(r["c"], cs)
    exp = {"transform": (r["fwd"], r["fld"]), "inverse": (r["inv"], r["ild"])}
    for meth in comb.METHODS:
        base = "transform" if meth.startswith("transform") else "inverse"
        ev, eld = exp[base]
        try:
            out = getattr(b, meth)(x, cnd)
        except Exception as e:  # noqa: BLE001
            rep.violation({**key, "method": meth, "what": "method raises on the declared shape", "error": type(e).__name__},
                          f"{desc}.{meth}(x{shape}, c{cs}) raised {type(e).__name__}: {str(e)[:300]}", {"case": c})
            continue
        val, ld = (out if meth.endswith("log_det") else (out, None))
        val = np.asarray(val)
        if val.shape != shape or not np.array_equal(val.ravel(), np.array(ev, dtype=float)):
            rep.violation({**key, "method": meth, "what": "value"},
                          f"{desc}.{meth}: returned {val.ravel().tolist()} (shape {val.shape}); the definition gives "
                          f"{ev} (shape {shape})", {"case": c})
        if ld is not None:
            ld = np.asarray(ld)
            if ld.shape != () or abs(float(ld) - eld * comb.LN2) > 1e-12 * (1 + abs(eld)):
                rep.violation({**key, "method": meth, "what": "log-det"},
                              f"{desc}.{meth}: log-det {ld} (shape {ld.shape}); the definition gives {eld} * ln 2 = "
                              f"{eld * comb.LN2}", {"case": c})
    # Scan equals the Chain of its unstacked layers (the same leaves constructed one by one)
    if q["k"] == "scan":
        try:
            from flowjax.bijections import Chain
            ch = Chain([build.mk_aff(i, shape) for i in q["ids"]])
            for meth in comb.METHODS:
                a1 = jax.tree_util.tree_leaves(getattr(b, meth)(x, cnd))
                a2 = jax.tree_util.tree_leaves(getattr(ch, meth)(x, cnd))
                if not all(np.array_equal(np.asarray(u), np.asarray(v)) for u, v in zip(a1, a2)):
                    rep.violation({**key, "method": meth, "what": "Scan != Chain of its unstacked layers"},
                                  f"{desc}.{meth}: Scan gives {[np.asarray(u).tolist() for u in a1]}, the Chain of the same layers {[np.asarray(v).tolist() for v in a2]}")
            rep.count(1, ("scan-vs-chain", desc))
        except Exception as e:  # noqa: BLE001
            rep.violation({**key, "what": "Scan vs Chain", "error": type(e).__name__}, f"{desc}: {type(e).__name__}: {e}")
    # Chain: merge_chains, indexing, slicing, iteration, length never change the function
    if q["k"] == "chain":
        try:
            merged = b.merge_chains()
            m1 = np.asarray(merged.transform(x, cnd))
            parts = list(iter(b))
            ok = len(b) == len(q["parts"]) and len(parts) == len(q["parts"])
            y = x
            for i in range(len(b)):
                y = b[i].transform(y, cnd)
            y2 = b[1:].transform(b[:1].transform(x, cnd), cnd)
            flat_ok = all(type(p).__name__ != "Chain" for p in merged)
            # a slice is the Chain of the selected parts: its declared cond_shape is the merge of THEIR condition shapes
            part_cs = [build.mk(p).cond_shape for p in q["parts"]]
            for sl in (slice(0, 1), slice(1, None), slice(0, -1), slice(None, None, 2)):
                want = [cs_ for cs_ in part_cs[sl] if cs_ is not None]
                want = tuple(want[0]) if want else None
                sub = b[sl]
                got_cs = None if sub.cond_shape is None else tuple(sub.cond_shape)
                if got_cs != want or tuple(sub.shape) != shape:
                    rep.violation({**key, "what": "slice declares the wrong cond_shape", "slice": str(sl)},
                                  f"{desc}[{sl}]: declares shape {tuple(sub.shape)} / cond_shape {got_cs}; the selected parts give {shape} / {want}",
                                  {"case": c})
                    break
            if not (ok and flat_ok and np.array_equal(m1.ravel(), np.array(r["fwd"], dtype=float))
                    and np.array_equal(np.asarray(y).ravel(), np.array(r["fwd"], dtype=float))
                    and np.array_equal(np.asarray(y2).ravel(), np.array(r["fwd"], dtype=float))):
                rep.violation({**key, "what": "merge_chains / indexing / slicing"},
                              f"{desc}: merge_chains, indexing or slicing changed the function", {"case": c})
            rep.count(1, ("chain-ops", desc))
        except Exception as e:  # noqa: BLE001
            rep.violation({**key, "what": "merge_chains / indexing / slicing", "error": type(e).__name__},
                          f"{desc}: {type(e).__name__}: {e}", {"case": c})


def main():
    ap = argparse.ArgumentParser()
    ap.add_argument("--replay")
    a = ap.parse_args()
    t = tier()
    thorough = t == "thorough"
    rep = Report(PID, t, "model_checking")
    rng = random.Random(rep.seed)
    if a.replay:
        payload = json.loads(open(a.replay).read())
        print(json.dumps(payload, indent=1)[:3000])
        check_case(rep, payload["replay"]["case"])
        rep.count(2, "replay-a"), rep.count(0, "replay-b")
        rep.set("states", 1), rep.set("transitions", 1), rep.set("traces_validated_against_impl", 0)
        return rep.finish()
    cases = comb.run_tlc(rep, thorough)
    deeper = comb.simulate_deeper(rep, 3, 48 if thorough else 4, rep.seed)
    budget = 20000 if thorough else 700
    valid = [c for c in cases if c["r"]["valid"]]
    picked = valid if len(valid) <= budget else rng.sample(valid, budget)
    todo = picked + deeper[: (4000 if thorough else 200)] + comb.chain_nests(rep, rng, 3000 if thorough else 240)
    pool.map_cases(rep, "harness.c08", "check_case", todo)
    # merge_transforms (flattening nested Transformed distributions) never changes the function: TLC's Flows machine
    # supplies nests of depth 2 and 3 with exact expected samples / log-probs (shared with C03)
    from engine import tlc as _tlc
    fr = _tlc.run("MC_Flows", "MC_Flows_full.cfg" if thorough else "MC_Flows_quick3.cfg", workers=16, timeout=1800, coverage=False)
    if fr.violated:
        rep.machinery_failure(f"Flows.tla violates {fr.violated}")
    else:
        rep.add("states", fr.distinct)
        rep.add("transitions", fr.generated)
        uniq = {}
        for c in fr.cases:
            if c["nest"] >= 2:
                uniq.setdefault(json.dumps(c["dist"], sort_keys=True), c)
        nests = list(uniq.values())
        deep = [c for c in nests if c["nest"] >= 3]
        shallow = [c for c in nests if c["nest"] == 2]
        pick = (deep if len(deep) <= 60 else rng.sample(deep, 60 if not thorough else 600)) + \
               (shallow if len(shallow) <= 30 else rng.sample(shallow, 30 if not thorough else 200))
        pool.map_cases(rep, "harness.c03", "check_case", pick, chunk=10)
        rep.set("merge_transforms_nests_replayed", len(pick))
    rep.set("traces_validated_against_impl", 0)
    rep.set("programs_replayed", len(todo))
    rep.set("exhaustive", len(picked) == len(valid))
    rep.set("rule", "one case per program enumerated by TLC's builder machine (leaf kinds x shape lattice x wraps), all "
                    "four methods each; non-trivial = the program changes its input or has a non-zero log-det")
    rep.assume("leaf parameters are installed exactly (Affine scale replaced by a plain power-of-two array with "
               "eqx.tree_at, as its docstring documents); dyadic float64 arithmetic is exact")
    return rep.finish()


if __name__ == "__main__":
    sys.exit(main_guard(PID, main))
