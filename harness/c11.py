"""C11 -- constrained parameters stay valid for every unconstrained value.

design      Params.tla: a history machine over the raw trainable leaves (set a leaf, one element, alternate signs or a
            ramp to any grid value in +-50); TLC's simulation mode produces the histories.
code->spec  each history is applied to real models with eqx.tree_at (Affine, Scale, TriangularAffine, StudentT, mixture,
            spline, planar with tanh / leaky relu incl. slope > 1, weight normalisation, the flows' min-scale affine
            through a masked autoregressive flow), in float64 and float32, also driven by real optimisers with absurd
            learning rates; after every update the abstraction of the unwrapped values (positive?, normalised?,
            knots increasing / spanning the interval?, derivatives >= min?, planar invertible?, row norms kept?) is
            recorded and Trace_Params (TLC) validates every history against the invariants.
constructor round trip (scale, rate, df, covariance, weights, bounds; magnitudes 1e-6 .. 1e6) and rejection of the
            arguments the property names (scale <= 0, df <= 0, weight <= 0, maxval <= minval, a non-permutation).
"""

from __future__ import annotations

import argparse
import json
import random
import sys

import jax

jax.config.update("jax_enable_x64", True)

import equinox as eqx  # noqa: E402
import jax.numpy as jnp  # noqa: E402
import jax.random as jr  # noqa: E402
import numpy as np  # noqa: E402
import optax  # noqa: E402

from engine import tlc, tracecheck  # noqa: E402
from engine.report import Report, main_guard, tier  # noqa: E402

PID = "C11"
P_GUARDS = ["Finite", "StrictlyPositive", "WeightsNormalised", "KnotsStrictlyIncreasing", "KnotsSpanTheInterval",
            "DerivativesAtLeastMin", "PlanarInvertible", "RowsKeepTheirNorm"]


# ---------------------------------------------------------------------------------------------------------------
def models():
    """name -> (model, relevant clauses, observe(model) -> dict of booleans)."""
    from flowjax import bijections as bj
    from flowjax import distributions as ds
    from flowjax.wrappers import WeightNormalization, unwrap
    k = jr.PRNGKey(0)
    out = {}

    def pos(*arrs):
        return bool(all(np.all(np.asarray(a) > 0) for a in arrs))

    out["Affine"] = (bj.Affine(jnp.zeros(3), jnp.ones(3)), ["positive"], lambda m: {"positive": pos(unwrap(m).scale)})
    out["Scale"] = (bj.Scale(jnp.ones((2, 2))), ["positive"], lambda m: {"positive": pos(unwrap(m).scale)})
    out["TriangularAffine"] = (bj.TriangularAffine(jnp.zeros(3), jnp.eye(3) + 0.3), ["positive"],
                               lambda m: {"positive": pos(jnp.diag(unwrap(m).triangular))})
    out["StudentT"] = (ds.StudentT(jnp.full(2, 4.0), jnp.zeros(2), jnp.ones(2)), ["positive"], lambda m: {"positive": pos(m.df, m.scale)})
    out["Normal"] = (ds.Normal(jnp.zeros(2), jnp.ones(2)), ["positive"], lambda m: {"positive": pos(m.scale)})
    out["Exponential"] = (ds.Exponential(jnp.ones(2) * 2), ["positive"], lambda m: {"positive": pos(m.rate) and bool(np.all(np.isfinite(np.asarray(m.rate))))})
    mix = ds.VmapMixture(eqx.filter_vmap(ds.Normal)(jnp.arange(3.0)), jnp.asarray([1.0, 2.0, 3.0]))

    def obs_mix(m):
        lw = np.asarray(unwrap(m).log_normalized_weights)
        return {"normalised": bool(abs(np.exp(lw).sum() - 1) < 1e-5 and np.all(np.exp(lw) >= 0) and np.all(lw <= 1e-6))}
    out["VmapMixture"] = (mix, ["normalised"], obs_mix)

    def obs_spline(m):
        u = unwrap(m)
        x, y, d = np.asarray(u.x_pos), np.asarray(u.y_pos), np.asarray(u.derivatives)
        lo, hi = float(u.interval[0]), float(u.interval[1])
        return {"increasing": bool(np.all(np.diff(x) > 0) and np.all(np.diff(y) > 0)),
                "ends": bool(x[0] == lo and x[-1] == hi and y[0] == lo and y[-1] == hi),
                "minderiv": bool(np.all(d >= u.min_derivative * (1 - 1e-6)))}
    out["RationalQuadraticSpline"] = (bj.RationalQuadraticSpline(knots=5, interval=(-2.0, 3.0), min_derivative=1e-3),
                                      ["increasing", "ends", "minderiv"], obs_spline)
    out["RationalQuadraticSpline(8 knots)"] = (bj.RationalQuadraticSpline(knots=8, interval=4, min_derivative=0.05),
                                               ["increasing", "ends", "minderiv"], obs_spline)

    def obs_planar(m):
        inner = unwrap(m.get_planar(None))
        w, uh, ur = np.asarray(inner.weight), np.asarray(inner.get_act_scale()), np.asarray(inner._act_scale)
        wu = float(w @ uh)
        slopes = [1.0] if inner.negative_slope is None else [1.0, float(inner.negative_slope)]
        # invertible iff 1 + s * w.u_hat > 0 for every slope s the activation's derivative can take
        ok = bool(all(1 + s * wu > 0 for s in slopes)) if np.isfinite(wu) else False
        out = {"invertible": ok}
        if not ok:      # which input made it fail (identifies known findings by their specific cause)
            from harness.c11_constraints import planar_cause
            eps = 1.2e-7 if inner.weight.dtype == jnp.float32 else 2.3e-16
            out["cause"] = planar_cause(w.astype(np.float64), ur.astype(np.float64), wu, slopes, eps)
        return out
    out["Planar(tanh)"] = (bj.Planar(k, dim=3), ["invertible"], obs_planar)
    out["Planar(leaky 0.1)"] = (bj.Planar(k, dim=3, negative_slope=0.1), ["invertible"], obs_planar)
    out["Planar(leaky 2.0)"] = (bj.Planar(k, dim=2, negative_slope=2.0), ["invertible"], obs_planar)

    def obs_wn(m):
        u = np.asarray(unwrap(m)).astype(np.float64)          # (squares of float32 values near 1e-22 underflow in float32)
        s = np.asarray(unwrap(m.scale)).astype(np.float64)
        norms = np.linalg.norm(u, axis=-1, keepdims=True)
        ok = bool(np.allclose(norms, s, rtol=1e-4, atol=0) and np.all(s > 0))
        out = {"rownorm": ok}
        if not ok and np.any(np.all(np.asarray(m.weight) == 0, axis=-1)):
            out["cause"] = "weight-normalised row == 0: 0/0 in the normalisation"
        return out
    out["WeightNormalization"] = (WeightNormalization(jnp.asarray(np.arange(1.0, 7.0).reshape(2, 3))), ["rownorm"], obs_wn)

    from flowjax import flows
    maf = flows.masked_autoregressive_flow(jr.PRNGKey(1), base_dist=ds.Normal(jnp.zeros(2)), flow_layers=1, nn_width=4, invert=False)
    cpl = flows.coupling_flow(jr.PRNGKey(2), base_dist=ds.Normal(jnp.zeros(3)), flow_layers=1, nn_width=4, invert=False)
    pts = [jnp.asarray(v) for v in ([0.3, -0.2, 0.9], [-1.5, 0.4, 2.0], [0.0, 0.0, 0.0])]

    def obs_flow(m):
        """the default transformer's scales are the diagonal of the first layer's Jacobian (autoregressive / coupling layer,
        taken out of the factory's Scan by its public pytree structure): every one strictly positive"""
        dim = m.shape[0]
        try:
            scan = m.bijection.bijection if type(m.bijection).__name__ == "Invert" else m.bijection
            layer0 = jax.tree_util.tree_map(lambda l: l[0] if eqx.is_array(l) else l, scan.bijection)
            core = layer0.bijections[0] if type(layer0).__name__ == "Chain" else layer0
            assert type(core).__name__ in ("MaskedAutoregressive", "Coupling")
        except Exception:  # noqa: BLE001     the layout of the factory's result is not part of the property
            J = np.asarray(jax.jacobian(lambda v: m.bijection.transform(v))(pts[0][:dim]))
            return {"positive": bool(np.all(np.isfinite(J)) and abs(np.linalg.det(J)) > 0)}
        ok = True
        for p in pts:
            J = np.asarray(jax.jacobian(lambda v: core.transform(v))(p[:dim]))
            ok = ok and bool(np.all(np.isfinite(J)) and np.all(np.diag(J) > 0))
        return {"positive": ok}
    out["masked_autoregressive_flow (min-scale affine)"] = (maf, ["positive"], obs_flow)
    out["coupling_flow (min-scale affine)"] = (cpl, ["positive"], obs_flow)
    return out


def raw_leaves(model):
    """indices (into tree_leaves) of the inexact array leaves: the raw, unconstrained parameters."""
    leaves = jax.tree_util.tree_leaves(model)
    return [i for i, l in enumerate(leaves) if eqx.is_inexact_array(l) and l.size > 0]


def apply_update(model, upd, wrap=True):
    leaves, td = jax.tree_util.tree_flatten(model)
    idx = raw_leaves(model)
    i = idx[(upd["leaf"] - 1) % len(idx)] if wrap else idx[upd["leaf"] - 1]
    a = np.asarray(leaves[i]).copy()
    v = float(upd["v"])
    flat = a.reshape(-1)
    if upd["mode"] == "all":
        flat[:] = v
    elif upd["mode"] == "one":
        flat[(upd["leaf"] * 7 + abs(int(upd["v"]))) % flat.size] = v
    elif upd["mode"] == "alt":
        flat[:] = v * np.where(np.arange(flat.size) % 2 == 0, 1.0, -1.0)
    else:
        flat[:] = np.linspace(-abs(v), abs(v), flat.size) if flat.size > 1 else v
    leaves[i] = jnp.asarray(flat.reshape(a.shape), dtype=leaves[i].dtype)
    return jax.tree_util.tree_unflatten(td, leaves)


def to32(model):
    return jax.tree_util.tree_map(lambda l: l.astype(jnp.float32) if eqx.is_inexact_array(l) else l, model)


def observe(name, model, relevant, obs):
    try:
        o = obs(model)
        fin = True
    except Exception as e:  # noqa: BLE001
        o, fin = {}, False
        o["error"] = f"{type(e).__name__}: {str(e)[:120]}"
    ev = {"k": "obs", "finite": fin}
    for r in ("positive", "normalised", "increasing", "ends", "minderiv", "invertible", "rownorm"):
        ev[r] = bool(o.get(r, True))
    if "error" in o:
        ev["error"] = o["error"]
    if "cause" in o:
        ev["cause"] = o["cause"]
    return ev


def histories(rep: Report, hists: list, thorough: bool, rng: random.Random):
    traces = []
    ms = models()
    for name, (model, relevant, obs) in ms.items():
        for variant in ("float64", "float32"):
            m0 = model if variant == "float64" else to32(model)
            picked = hists if len(hists) <= (40 if thorough else 8) else rng.sample(hists, 40 if thorough else 8)
            for h in picked:
                m = m0
                ev = [observe(name, m, relevant, obs)]
                for upd in h:
                    m = apply_update(m, upd)
                    ev.append(observe(name, m, relevant, obs))
                traces.append({"cfg": {"model": name, "dtype": variant, "relevant": relevant, "driver": "tlc-history", "hist": h,
                                       "cause": next((e["cause"] for e in ev if "cause" in e), "")}, "ev": ev})
                rep.count(1, ("hist", name, variant, json.dumps(h)))
        # every raw leaf on its own (the TLC histories address the first K leaves): set to each extreme of the box
        for li in range(len(raw_leaves(model))):
            for v in (-50, 50, -7, 12):
                h = [{"leaf": li + 1, "mode": "all", "v": v}]
                m = apply_update(model, h[0], wrap=False)
                ev = [observe(name, model, relevant, obs), observe(name, m, relevant, obs)]
                traces.append({"cfg": {"model": name, "dtype": "float64", "relevant": relevant, "driver": "single-leaf sweep", "hist": h,
                                       "cause": next((e["cause"] for e in ev if "cause" in e), "")}, "ev": ev})
                rep.count(1, ("sweep", name, li, v))
        # real optimisers with absurd learning rates
        for oi, opt in enumerate([optax.sgd(1e3), optax.adam(30.0), optax.sgd(-50.0)]):
            params, static = eqx.partition(model, eqx.is_inexact_array)
            state = opt.init(params)
            ev = []
            m = model
            r2 = np.random.default_rng(oi)
            for step in range(4):
                g = jax.tree_util.tree_map(lambda p: jnp.asarray(r2.normal(size=p.shape)), params)
                upd, state = opt.update(g, state, params)
                params = eqx.apply_updates(params, upd)
                params = jax.tree_util.tree_map(lambda p: jnp.clip(p, -50.0, 50.0), params)    # the property's box |raw| <= 50
                m = eqx.combine(params, static)
                ev.append(observe(name, m, relevant, obs))
            traces.append({"cfg": {"model": name, "dtype": "float64", "relevant": relevant, "driver": f"optimiser{oi}", "hist": [],
                                   "cause": next((e["cause"] for e in ev if "cause" in e), "")}, "ev": ev})
            rep.count(1, ("opt", name, oi))
    return traces


# ---------------------------------------------------------------------------------------------------------------
def round_trips(rep: Report):
    from flowjax import bijections as bj
    from flowjax import distributions as ds
    mags = np.array([1e-6, 1e-3, 0.5, 1.0, 7.0, 1e3, 1e6])

    def chk(name, got, exp, tol=1e-9):
        rep.count(1, ("roundtrip", name))
        g, e = np.asarray(got, float), np.asarray(exp, float)
        if g.shape != e.shape or not np.all(np.abs(g - e) <= tol * (1 + np.abs(e))):
            rep.violation({"roundtrip": name}, f"{name}: constructed with {e.tolist()}, accessor returns {g.tolist()}")

    try:
        chk("Affine.scale", ds.Normal(0.0, jnp.asarray(mags)).bijection.scale.unwrap() if False else ds.Normal(0.0, jnp.asarray(mags)).scale, mags)
        chk("Normal.loc", ds.Normal(jnp.asarray(mags), 1.0).loc, mags)
        chk("LogNormal scale", __import__("flowjax.wrappers", fromlist=["unwrap"]).unwrap(ds.LogNormal(0.3, jnp.asarray(mags)).bijection[0].scale), mags)
        chk("Exponential.rate", ds.Exponential(jnp.asarray(mags)).rate, mags, 1e-8)
        chk("StudentT.df", ds.StudentT(jnp.asarray(mags), 0.0, 1.0).df, mags)
        chk("StudentT.scale", ds.StudentT(3.0, 0.0, jnp.asarray(mags)).scale, mags)
        for fam in ("Gumbel", "Cauchy", "Laplace", "Logistic"):
            chk(f"{fam}.scale", getattr(ds, fam)(0.5, jnp.asarray(mags)).scale, mags)
            chk(f"{fam}.loc", getattr(ds, fam)(jnp.asarray(mags), 2.0).loc, mags)
        u = ds.Uniform(jnp.asarray([-1e6, 0.0, 1e-6]), jnp.asarray([1e6, 1e-6, 1.0]))
        chk("Uniform.minval", u.minval, [-1e6, 0.0, 1e-6])
        chk("Uniform.maxval", u.maxval, [1e6, 1e-6, 1.0])
        A = np.array([[2.0, 0.3, -0.1], [0.3, 1.0, 0.2], [-0.1, 0.2, 5e3]])
        chk("MultivariateNormal.covariance", ds.MultivariateNormal(jnp.zeros(3), jnp.asarray(A)).covariance, A, 1e-9)
        w = np.array([1e-6, 2.0, 1e3])
        mix = ds.VmapMixture(eqx.filter_vmap(ds.Normal)(jnp.arange(3.0)), jnp.asarray(w))
        chk("VmapMixture weights", np.exp(np.asarray(__import__("flowjax.wrappers", fromlist=["unwrap"]).unwrap(mix).log_normalized_weights)), w / w.sum())
        from flowjax.wrappers import unwrap
        chk("Scale.scale", unwrap(bj.Scale(jnp.asarray(mags))).scale, mags)
        T = np.tril(np.arange(1.0, 10.0).reshape(3, 3)) * np.array([1e-3, 1.0, 1e3])
        chk("TriangularAffine.triangular", unwrap(bj.TriangularAffine(jnp.zeros(3), jnp.asarray(T))).triangular, T)
    except Exception as e:  # noqa: BLE001
        rep.violation({"roundtrip": "raises", "error": type(e).__name__}, f"constructor round trip raised {type(e).__name__}: {str(e)[:300]}")


def rejections(rep: Report):
    from flowjax import bijections as bj
    from flowjax import distributions as ds
    bad = {}
    for v, tag in ((0.0, "0"), (-1.0, "-1"), (-1e-9, "-1e-9")):
        arr = jnp.asarray([1.0, v])
        bad[f"Affine(scale={tag})"] = lambda a=arr: bj.Affine(0.0, a)
        bad[f"Scale({tag})"] = lambda a=arr: bj.Scale(a)
        bad[f"TriangularAffine(diag {tag})"] = lambda vv=v: bj.TriangularAffine(jnp.zeros(2), jnp.asarray([[1.0, 0.0], [0.5, vv]]))
        for fam in ("Normal", "LogNormal", "Gumbel", "Cauchy", "Laplace", "Logistic"):
            bad[f"{fam}(scale={tag})"] = lambda f=fam, a=arr: getattr(ds, f)(0.0, a)
        bad[f"StudentT(scale={tag})"] = lambda a=arr: ds.StudentT(3.0, 0.0, a)
        bad[f"StudentT(df={tag})"] = lambda a=arr: ds.StudentT(a, 0.0, 1.0)
        bad[f"VmapMixture(weight={tag})"] = lambda vv=v: ds.VmapMixture(eqx.filter_vmap(ds.Normal)(jnp.arange(2.0)), jnp.asarray([1.0, vv]))
    bad["Uniform(maxval == minval)"] = lambda: ds.Uniform(1.0, 1.0)
    bad["Uniform(maxval < minval)"] = lambda: ds.Uniform(1.0, 0.5)
    bad["Uniform(elementwise maxval <= minval)"] = lambda: ds.Uniform(jnp.asarray([0.0, 1.0]), jnp.asarray([1.0, 1.0]))
    bad["Permute(repeated index)"] = lambda: bj.Permute(jnp.asarray([0, 0, 2]))
    bad["Permute(out of range)"] = lambda: bj.Permute(jnp.asarray([0, 1, 3]))
    bad["Permute(negative)"] = lambda: bj.Permute(jnp.asarray([-1, 0, 1]))
    bad["Permute(negative entry, 0 missing)"] = lambda: bj.Permute(jnp.asarray([-1, 1, 2, 3]))
    bad["Permute(all shifted by one)"] = lambda: bj.Permute(jnp.asarray([1, 2, 3]))
    bad["Permute(2-D, negative entry, 0 missing)"] = lambda: bj.Permute(jnp.asarray([[-1, 5, 3], [1, 2, 4]]))
    bad["Permute(2-D, repeated index)"] = lambda: bj.Permute(jnp.asarray([[0, 1], [1, 3]]))
    bad["Permute(one entry too large, one missing)"] = lambda: bj.Permute(jnp.asarray([0, 1, 2, 4]))
    bad["Permute(-n wraps to 0)"] = lambda: bj.Permute(jnp.asarray([-3, 1, 2]))
    for name, ctor in bad.items():
        rep.count(1, ("reject", name))
        try:
            obj = ctor()
            jax.block_until_ready(jax.tree_util.tree_leaves(obj))
        except Exception:  # noqa: BLE001
            continue
        rep.violation({"constructor": name}, f"{name}: the constructor accepted an argument outside the constraint")
    # the same value-dependent rejections with the object constructed inside jit (the argument is traced: a check whose
    # result is not used would be dead code there).  Demanded only where the valid argument is accepted under jit.
    jitted = {}
    for fam in ("Normal", "LogNormal", "Gumbel", "Cauchy", "Laplace", "Logistic"):
        jitted[f"{fam}(scale)"] = (lambda a, f=fam: getattr(ds, f)(0.0, a), "scale")
    jitted["Affine(scale)"] = (lambda a: bj.Affine(0.0, a), "scale")
    jitted["Scale"] = (lambda a: bj.Scale(a), "scale")
    jitted["TriangularAffine(diag)"] = (lambda a: bj.TriangularAffine(jnp.zeros(2), jnp.diag(a) + jnp.asarray([[0.0, 0.0], [0.5, 0.0]])), "scale")
    jitted["StudentT(scale)"] = (lambda a: ds.StudentT(3.0, 0.0, a), "scale")
    jitted["StudentT(df)"] = (lambda a: ds.StudentT(a, 0.0, 1.0), "scale")
    jitted["VmapMixture(weights)"] = (lambda a: ds.VmapMixture(eqx.filter_vmap(ds.Normal)(jnp.arange(2.0)), a), "scale")
    jitted["Uniform(minval, maxval)"] = (lambda a: ds.Uniform(a[0], a[1]), "order")
    for name, (ctor, kind) in jitted.items():
        good = jnp.asarray([1.0, 2.0])
        bads = [jnp.asarray([1.0, 0.0]), jnp.asarray([1.0, -1.0])] if kind == "scale" else [jnp.asarray([1.0, 1.0]), jnp.asarray([1.0, 0.5])]
        f = eqx.filter_jit(ctor)
        try:
            jax.block_until_ready(jax.tree_util.tree_leaves(f(good)))
        except Exception:  # noqa: BLE001    cannot be constructed under jit at all: nothing to demand
            rep.add("constructors_not_jittable")
            continue
        for b_ in bads:
            rep.count(1, ("reject-jit", name, str(np.asarray(b_).tolist())))
            try:
                jax.block_until_ready(jax.tree_util.tree_leaves(f(b_)))
            except Exception:  # noqa: BLE001
                continue
            rep.violation({"constructor": name, "under": "jit", "argument": np.asarray(b_).tolist()},
                          f"{name}: constructed inside jit, the argument {np.asarray(b_).tolist()} (outside the constraint) was accepted silently")


def main():
    ap = argparse.ArgumentParser()
    ap.add_argument("--replay")
    a = ap.parse_args()
    t = tier()
    thorough = t == "thorough"
    rep = Report(PID, t, "exploration")
    rng = random.Random(rep.seed)
    if a.replay:
        payload = json.loads(open(a.replay).read())["replay"]
        print(json.dumps(payload, indent=1)[:3000])
        if "trace" in payload:
            tracecheck.check(rep, "Trace_Params", "Trace_Params_I.cfg", [payload["trace"]], P_GUARDS, pid=PID)
        rep.count(2, "replay-a"), rep.count(0, "replay-b")
        rep.set("rule", "replay")
        return rep.finish()
    r = tlc.run("MC_Params", "MC_Params.cfg", workers=4, coverage=False, simulate=f"num={12 if thorough else 4}", depth=6, seed=rep.seed, timeout=600)
    if r.violated:
        rep.machinery_failure(f"Params.tla violates {r.violated}")
    hs = {}
    for c in r.cases:
        hs.setdefault(json.dumps(c["hist"]), c["hist"])
    hists = list(hs.values())
    rep.set("tlc_histories", len(hists))
    rep.set("states", max(r.generated, 1))
    rep.set("transitions", max(r.generated, 1))
    traces = histories(rep, hists, thorough, rng)
    stats = tracecheck.check(rep, "Trace_Params", "Trace_Params_I.cfg", traces, P_GUARDS, pid=PID,
                             describe=lambda tr: {"model": tr["cfg"]["model"], "dtype": tr["cfg"]["dtype"], "driver": tr["cfg"]["driver"],
                                                  "cause": tr["cfg"].get("cause", ""), "hist": json.dumps(tr["cfg"]["hist"])[:160]})
    rep.set("traces_validated_against_impl", len(traces))
    rep.set("trace_validation", stats)
    if traces:
        rep.sample({"kind": "code->spec history", "trace": traces[3]}, 3)
    from harness import c11_constraints
    ccases = c11_constraints.run_spec(rep)
    c11_constraints.replay(rep, ccases, thorough)
    round_trips(rep)
    rejections(rep)
    rep.set("rule", "one trace per (model, dtype, TLC history | optimiser); one case per constructor round trip and per "
                    "invalid argument at the edge of validity; distinct by those keys")
    rep.assume("the floating-point fact that softplus / softmax outputs stay positive for |raw| <= 50 is decided by running "
               "the code; the specification contributes the histories and the single statement of the invariants")
    rep.assume("only the rejections the property names are demanded (scale, weights, df <= 0; maxval <= minval; a non-permutation)")
    return rep.finish()


if __name__ == "__main__":
    sys.exit(main_guard(PID, main))
