"""C15 -- fit_to_data never loses, duplicates or misaligns data.

design      TLC, exhaustive: FitToData data-flow configuration (every split, every batch choice, symmetric rows);
            Batching (arithmetic of the two public helpers).
spec->code  every Batching state replayed into the real get_batches / train_val_split with index-tagged rows.
code->spec  event traces of the real fit_to_data (tagged rows, scripted loss, counting optimiser) over a grid of
            (n, batch_size, val_prop, condition?, epochs) validated by Trace_FitToData (I layer, then P layer):
            Aligned, AtMostOncePerEpoch, OnlyRemainderSkipped, Partition, NoValidationGradient, FreshKey at every step.
            Same key twice => identical trace and result.
"""

from __future__ import annotations

import argparse
import json
import random
import sys

import jax

jax.config.update("jax_enable_x64", True)

import jax.numpy as jnp  # noqa: E402
import jax.random as jr  # noqa: E402
import numpy as np  # noqa: E402

from engine import observe, tlc, tracecheck  # noqa: E402
from engine.report import Report, main_guard, tier  # noqa: E402
from harness.c16 import FTD_GUARDS  # noqa: E402

PID = "C15"


def model_check(rep: Report, thorough: bool):
    per = {}
    for module, cfg in [("MC_FitToData", "MC_FitToData_data.cfg" if thorough else "MC_FitToData_data_small.cfg")]:
        r = tlc.run(module, cfg, workers=16, timeout=1500)
        per[cfg] = {"distinct": r.distinct, "generated": r.generated, "depth": r.depth, "wall_s": round(r.wall_s, 1),
                    "result": r.violated or "no error",
                    "actions": {a: v[0] for a, v in r.actions.items() if a in
                                ("Split", "BeginEpoch", "TrainBatch", "EndTrain", "ValBatch", "EndVal", "Decide",
                                 "Exhaust", "Return")}}
        if r.violated:
            rep.machinery_failure(f"the specification itself violates {r.violated} under {cfg}")
            continue
        zero = [a for a, v in per[cfg]["actions"].items() if v == 0]
        if zero:
            rep.machinery_failure(f"vacuous run {cfg}: actions never taken {zero}")
        rep.add("states", r.distinct)
        rep.add("transitions", r.generated)
    rep.set("tlc_runs", per)


def replay_helpers(rep: Report, rng: random.Random):
    from flowjax.train.train_utils import get_batches, train_val_split
    r = tlc.run("Batching", "MC_Batching.cfg", workers=4, coverage=False)
    if r.violated:
        rep.machinery_failure(f"Batching violates {r.violated}")
        return
    rep.add("states", r.distinct)
    rep.add("transitions", r.generated)
    seen = set()
    for c in r.cases:
        if (c["n"], c["b"]) in seen:
            continue
        seen.add((c["n"], c["b"]))
        n, b = c["n"], c["b"]
        idx = np.arange(n, dtype=float)
        arrays = [jnp.asarray(idx), jnp.asarray(np.stack([idx + 1000, -idx], 1)), jnp.asarray((idx * 3).reshape(n, 1, 1))]
        key = {"helper": "get_batches", "n": n, "batch_size": b}
        try:
            out = get_batches(arrays, b)
        except Exception as e:  # noqa: BLE001
            rep.violation(key, f"get_batches raised {type(e).__name__}: {e} for n={n}, batch_size={b}")
            continue
        exp = np.asarray(c["batches"], dtype=float).reshape(c["nb"], c["bs"])
        ok = (len(out) == 3 and out[0].shape == exp.shape and np.array_equal(np.asarray(out[0]), exp)
              and out[1].shape == (c["nb"], c["bs"], 2) and np.array_equal(np.asarray(out[1][..., 0]), exp + 1000)
              and np.array_equal(np.asarray(out[1][..., 1]), -exp)
              and out[2].shape == (c["nb"], c["bs"], 1, 1) and np.array_equal(np.asarray(out[2][..., 0, 0]), exp * 3))
        rep.count(1, ("get_batches", n, b) if c["nb"] * c["bs"] < n or c["bs"] < b else None)
        rep.sample({"kind": "spec->code get_batches", "tlc_case": c}, 2)
        if not ok:
            rep.violation(key, f"get_batches(n={n}, batch_size={b}) does not return the leading {c['nb']}x{c['bs']} "
                               f"rows in order, aligned across arrays: got {np.asarray(out[0]).tolist()}",
                          {"case": c})
        # train_val_split on the same tagged arrays for every validation size that leaves both parts non-empty
        for nval in range(1, n):
            vp = nval / n
            if round(vp * n) != nval:
                continue
            k = jr.key(rng.randrange(2**31))
            try:
                tr, va = train_val_split(k, arrays, val_prop=vp)
            except Exception as e:  # noqa: BLE001
                rep.violation({"helper": "train_val_split", "n": n, "nval": nval},
                              f"train_val_split raised {type(e).__name__}: {e}")
                continue
            t0, v0 = np.asarray(tr[0]), np.asarray(va[0])
            ok = (len(t0) == n - nval and len(v0) == nval
                  and sorted(np.concatenate([t0, v0]).tolist()) == idx.tolist()
                  and np.array_equal(np.asarray(tr[1][:, 0]), t0 + 1000) and np.array_equal(np.asarray(va[1][:, 0]), v0 + 1000)
                  and np.array_equal(np.asarray(tr[1][:, 1]), -t0) and np.array_equal(np.asarray(va[2][:, 0, 0]), v0 * 3)
                  and np.array_equal(np.asarray(tr[2][:, 0, 0]), t0 * 3))
            rep.count(1, ("split", n, nval))
            if not ok:
                rep.violation({"helper": "train_val_split", "n": n, "nval": nval},
                              f"train_val_split(n={n}, val_prop={vp}) is not an aligned partition into "
                              f"{n - nval}+{nval} rows: train={t0.tolist()} val={v0.tolist()}")


def grid(rng: random.Random, thorough: bool):
    """(n, batch, val_prop, has_cond, epochs) -- n in 2..60, batch in 1..n+5, val_prop on a grid of (0,1)."""
    props = [0.1, 0.2, 0.25, 0.34, 0.5, 0.66, 0.8, 0.9]
    cases = []
    ns = list(range(2, 61)) if thorough else [2, 3, 4, 5, 7, 10, 13, 17, 24, 33, 47, 60]
    for n in ns:
        bs = sorted(set(range(1, n + 6))) if (thorough and n <= 16) else None
        if bs is None:
            k = 14 if thorough else 9
            bs = sorted(set([1, 2, n - 1, n, n + 1, n + 5] + [rng.randrange(1, n + 6) for _ in range(k)]))
            bs = [b for b in bs if b >= 1]
        for b in bs:
            vps = [vp for vp in props if 1 <= round(vp * n) <= n - 1]
            if not vps:
                continue
            for vp in (vps if (thorough and n <= 10) else rng.sample(vps, min(len(vps), 2 if thorough else 1))):
                cases.append((n, b, vp, rng.random() < 0.5, rng.randrange(1, 5)))
    return cases


def record(rep: Report, cases: list, rng: random.Random):
    S = observe.DataSession()
    traces = []
    for i, (n, b, vp, hc, ep) in enumerate(cases):
        script = rng.sample(range(1, 99), ep)
        kw = dict(n=n, batch=b, val_prop=vp, max_epochs=ep, patience=9, return_best=bool(i % 2),
                  script_by_epoch=script, has_cond=hc, seed=rep.seed * 100003 + i)
        try:
            t = S.run(**kw)
        except Exception as e:  # noqa: BLE001
            rep.violation({"call": "fit_to_data", "error": type(e).__name__, "n": n, "batch": b, "val_prop": vp},
                          f"fit_to_data raised {type(e).__name__}: {e} for {kw}", {"kw": kw})
            continue
        traces.append(t)
        nontrivial = (n - t["cfg"]["nval"]) % min(b, n - t["cfg"]["nval"]) != 0 or ep > 1
        rep.count(1, ("trace", n, b, vp, hc, ep) if nontrivial else None)
        if i % 9 == 0:       # "the same key reproduces the same run"
            t2 = S.run(**kw)
            rep.count(1, ("repro", n, b, vp))
            if t2 != t:
                rep.violation({"call": "fit_to_data", "what": "same key, different run", "n": n, "batch": b},
                              f"fit_to_data with the same key gave two different runs for {kw}",
                              {"kw": kw, "first": t, "second": t2})
        if len(traces) % 300 == 0:
            jax.clear_caches()
    return traces


def integer_data(rep: Report, rng: random.Random):
    """A user's own loss on integer-typed data (ids, labels): every row handed to the loss is a row of the data set as it
    was given -- same integer values (beyond 2^24 and 2^53 / 2: a cast to float would round them), still an integer type --
    and the condition row is the one given with that x row."""
    import equinox as eqx
    import optax
    from flowjax.train import fit_to_data
    for n, batch, vp, layout in [(11, 3, 0.3, "2d/2d"), (8, 20, 0.25, "2d/2d"), (6, 1, 0.5, "2d/2d"),
                                 (9, 4, 0.3, "2d/1d"), (9, 4, 0.3, "1d/2d"), (7, 2, 0.3, "1d/1d"), (7, 3, 0.3, "3d/1d")]:
        ids = (2**24 + 1 + 2 * np.arange(n, dtype=np.int64)) * (2**30 if n == 11 else 1)          # odd, > 2^24; once > 2^53
        x = jnp.asarray(np.stack([ids, ids % 7], axis=1))
        cond = jnp.asarray((ids * 3 + 1)[:, None])
        # rows that are scalars (a 1-D data array) or matrices: the loss must get them in the event shape they were given in
        xl, cl = layout.split("/")
        if xl == "1d":
            x = x[:, 0]
        if xl == "3d":
            x = jnp.stack([x, x], axis=2)
        if cl == "1d":
            cond = cond[:, 0]
        ev_x, ev_c = tuple(x.shape[1:]), tuple(cond.shape[1:])
        seen = []

        def rec(xb, cb):
            seen.append((np.asarray(xb), np.asarray(cb)))

        def loss_fn(params, static, x, condition=None, key=None):
            jax.debug.callback(rec, x, condition, ordered=True)
            return (params[0] - 1.0) ** 2 + 0.0 * x.sum()
        rep.count(1, ("integer-data", n, batch, vp, layout))
        try:
            fit_to_data(jr.PRNGKey(n), (jnp.asarray(0.0),), x, condition=cond, loss_fn=loss_fn, max_epochs=2, batch_size=batch, val_prop=vp,
                        optimizer=optax.sgd(0.1), show_progress=False)
            jax.effects_barrier()
        except Exception as e:  # noqa: BLE001
            rep.violation({"data": "integer", "n": n, "error": type(e).__name__}, f"fit_to_data on integer-typed data: {type(e).__name__}: {str(e)[:200]}")
            continue
        idset = {int(v): i for i, v in enumerate(ids)}
        for xb, cb in seen:
            bad = None
            if tuple(xb.shape[1:]) != ev_x or tuple(cb.shape[1:]) != ev_c or xb.shape[0] != cb.shape[0]:
                bad = (f"the loss received a batch of x with shape {xb.shape} and of the condition with shape {cb.shape}; the rows were "
                       f"given with shapes {ev_x} and {ev_c}")
            xb, cb = xb.reshape(xb.shape[0], -1), cb.reshape(cb.shape[0], -1)
            if xl != "2d":          # bring the row to the (id, id % 7) layout the pairing test below reads
                xb = np.stack([xb[:, 0], xb[:, 0] % 7], axis=1) if xl == "1d" else xb[:, [0, 2]]
            if bad:
                pass
            elif not (np.issubdtype(xb.dtype, np.integer) and np.issubdtype(cb.dtype, np.integer)):
                bad = f"the loss received dtypes {xb.dtype} / {cb.dtype} for integer data"
            else:
                for r in range(xb.shape[0]):
                    i = idset.get(int(xb[r, 0]))
                    if i is None or int(xb[r, 1]) != int(ids[i] % 7) or int(cb[r, 0]) != int(ids[i] * 3 + 1):
                        bad = f"row {xb[r].tolist()} with condition {cb[r].tolist()} is not a row of the data set with its own condition"
                        break
            if bad:
                rep.violation({"data": "integer", "n": n, "batch": batch, "layout": layout, "what": "rows handed to the loss"},
                              f"fit_to_data(n={n}, batch_size={batch}, val_prop={vp}, x / condition given as {layout} arrays) with integer ids: {bad}")
                break


def binding_selftest(rep: Report, traces: list):
    """Demonstrates that the trace specification is bound to the recordings: each corruption of a recorded execution must be
    rejected, at the clause it violates.  A corruption that is accepted is a machinery failure (the check would be vacuous)."""
    import copy
    base = next((t for t in traces if t["cfg"]["maxep"] >= 2 and not t["cfg"].get("real")
                 and sum(1 for e in t["ev"] if e["k"] == "loss" and e["grad"]) >= 4
                 and (t["cfg"]["n"] - t["cfg"]["nval"]) // min(t["cfg"]["batch"], t["cfg"]["n"] - t["cfg"]["nval"]) >= 2), None)
    if base is None:
        rep.note("binding self-test skipped: no recorded trace with two training batches per epoch")
        return
    tr_idx = [i for i, e in enumerate(base["ev"]) if e["k"] == "loss" and e["grad"]]
    va_idx = [i for i, e in enumerate(base["ev"]) if e["k"] == "loss" and not e["grad"]]
    cases = {}
    t = copy.deepcopy(base); t["ev"][tr_idx[1]]["key"] = t["ev"][tr_idx[0]]["key"]; cases["a key used twice"] = (t, "FreshKey")
    t = copy.deepcopy(base); t["ev"][tr_idx[0]]["rows"][0] = base["ev"][va_idx[0]]["rows"][0]; t["ev"][tr_idx[0]]["crows"][0] = base["ev"][va_idx[0]]["rows"][0]
    cases["a validation row inside a gradient step"] = (t, "Partition")
    t = copy.deepcopy(base); t["ev"][tr_idx[1]]["rows"][0] = base["ev"][tr_idx[0]]["rows"][0]; t["ev"][tr_idx[1]]["crows"][0] = base["ev"][tr_idx[0]]["rows"][0]
    cases["a row used twice in one epoch"] = (t, "AtMostOncePerEpoch")
    t = copy.deepcopy(base); t["ret"]["theta"] += 1; cases["the returned parameters off by one update"] = (t, "Returns")
    t = copy.deepcopy(base); t["ev"] = t["ev"][:-3]; cases["the last three events dropped"] = (t, "")
    t = copy.deepcopy(base); t["ev"][tr_idx[0]]["crows"][0] = (t["ev"][tr_idx[0]]["crows"][0] + 1) % t["cfg"]["n"]; cases["x and condition rows misaligned"] = (t, "Aligned")
    cases = {"(the recording itself, uncorrupted)": (copy.deepcopy(base), None), **cases}
    probe = Report(PID, rep.tier, "model_checking")
    probe.findings = []
    import contextlib
    import io
    with contextlib.redirect_stdout(io.StringIO()):
        tracecheck.check(probe, "Trace_FitToData", "Trace_FitToData_I.cfg", [c[0] for c in cases.values()], FTD_GUARDS, pid=PID,
                         describe=lambda tr: {"n": tr["cfg"]["n"]})
    msgs = [v[1] for v in probe.violations]
    cases.pop("(the recording itself, uncorrupted)")
    if len(probe.violations) > len(cases):        # the recording itself is rejected (the code under test is broken): no self-test
        rep.note("binding self-test skipped: the uncorrupted recording is itself rejected")
        return
    if len(probe.violations) != len(cases):
        rep.machinery_failure(f"binding self-test: {len(cases)} corrupted recordings, only {len(probe.violations)} rejected: {msgs}")
    for name, (_t, clause) in cases.items():
        if clause and not any(clause in m for m in msgs):
            rep.machinery_failure(f"binding self-test: corruption '{name}' was not attributed to a clause containing '{clause}': {msgs}")
    rep.set("binding_selftest", {"corruptions_rejected": len(probe.violations), "of": len(cases),
                                 "clauses": [m.split("property layer: ")[1].split(";")[0] for m in msgs if "property layer: " in m]})


def main():
    ap = argparse.ArgumentParser()
    ap.add_argument("--replay")
    a = ap.parse_args()
    t = tier()
    thorough = t == "thorough"
    rep = Report(PID, t, "model_checking")
    rng = random.Random(rep.seed)
    if a.replay:
        payload = json.loads(open(a.replay).read())["replay"]
        print(json.dumps(payload, indent=1)[:4000])
        if "trace" in payload:
            tracecheck.check(rep, "Trace_FitToData", "Trace_FitToData_I.cfg", [payload["trace"]], FTD_GUARDS, pid=PID)
        elif "kw" in payload:
            record(rep, [(payload["kw"]["n"], payload["kw"]["batch"], payload["kw"]["val_prop"],
                          payload["kw"]["has_cond"], payload["kw"]["max_epochs"])], rng)
        rep.count(2, "replay-a"), rep.count(0, "replay-b")
        rep.set("states", 1), rep.set("transitions", 1), rep.set("traces_validated_against_impl", 1)
        return rep.finish()
    model_check(rep, thorough)
    replay_helpers(rep, rng)
    cases = grid(rng, thorough)
    traces = record(rep, cases, rng)
    from harness.c16 import real_runs          # real flows, the library's own loss, real optimisers (rows identified by value)
    real_runs(rep, rng, 30 if thorough else 6, traces)
    stats = tracecheck.check(rep, "Trace_FitToData", "Trace_FitToData_I.cfg", traces, FTD_GUARDS, pid=PID,
                             describe=lambda tr: {k: tr["cfg"][k] for k in ("n", "batch", "nval", "maxep", "hascond")})
    binding_selftest(rep, traces)
    integer_data(rep, rng)
    rep.set("traces_validated_against_impl", len(traces))
    rep.set("trace_validation", stats)
    rep.set("events_validated", sum(len(tr["ev"]) for tr in traces))
    if traces:
        rep.sample({"kind": "code->spec trace", "trace": traces[len(traces) // 2]}, 4)
    rep.set("rule", "code->spec: one trace per (n, batch_size, val_prop, condition?, epochs); non-trivial = a "
                    "remainder is skipped or more than one epoch is run; spec->code: one case per (n, batch_size) "
                    "and (n, n_val) of the helper grid; non-trivial get_batches case = rows dropped or batch clipped")
    rep.assume("rows are identified by an index tag in column 0 of x and of the condition")
    rep.assume("P layer assumes the documented epoch structure: training pass then validation pass")
    return rep.finish()


if __name__ == "__main__":
    sys.exit(main_guard(PID, main))
