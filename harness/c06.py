"""C06 -- batched calls equal elementwise unbatched calls with NumPy broadcasting.

design      TLC over the lattice of (event shape, condition shape, batch shape of x, batch shape of the condition,
            sample_shape): MapsTotal, MapsOnto, AlignedWhenEqual, KeysInjective, KeysEnough (Vectorize.tla).
spec->code  every configuration TLC prints is replayed on real distributions whose value depends on x AND on the
            condition: result shapes equal TLC's; every element of log_prob equals the unbatched call on the
            (x slice, condition slice) TLC designates; every element of sample_and_log_prob's log-prob equals the
            unbatched log_prob of that sample element under the designated condition slice; all draws of one batched
            sample are pairwise distinct; the same key gives the same result; shapes that do not broadcast raise.
            I (drift only): element k of a batched sample is _sample(split(key, n)[k]).
"""

from __future__ import annotations

import argparse
import json
import random
import sys

import jax

jax.config.update("jax_enable_x64", True)

import equinox as eqx  # noqa: E402
import jax.numpy as jnp  # noqa: E402
import jax.random as jr  # noqa: E402
import numpy as np  # noqa: E402

from engine import pool, tlc  # noqa: E402
from engine.report import Report, main_guard, tier  # noqa: E402

PID = "C06"


class Lin(eqx.Module):
    W: jnp.ndarray
    out_shape: tuple = eqx.field(static=True)

    def __call__(self, c):
        return (self.W @ jnp.ravel(c)).reshape(self.out_shape)


def make_dist(e, cs, variant=0):
    """A real distribution with event shape e whose density depends on x and (if conditional) on the condition."""
    from flowjax import distributions as ds
    from flowjax.bijections import AdditiveCondition, Affine, Chain
    n = int(np.prod(e)) if e else 1
    loc = (np.arange(n, dtype=float) * 0.37 - 0.2).reshape(e)
    scale = (1.0 + 0.25 * np.arange(n, dtype=float)).reshape(e)
    base = ds.Normal(jnp.asarray(loc), jnp.asarray(scale)) if variant == 0 else ds.Laplace(jnp.asarray(loc), jnp.asarray(scale))
    if cs is None:
        return base
    m = int(np.prod(cs)) if cs else 1
    W = np.array([[0.3 * ((k + 2 * j) % 5) - 0.4 for j in range(m)] for k in range(n)])
    add = AdditiveCondition(Lin(jnp.asarray(W), tuple(e)), tuple(e), tuple(cs))
    return ds.Transformed(base, Chain([Affine(jnp.zeros(e), jnp.full(e, 1.5)), add]))


def check_case(rep, c: dict):
    cfg = c["cfg"]
    e, bx, ss = tuple(cfg["e"]), tuple(cfg["bx"]), tuple(cfg["ss"])
    cs = None if cfg["cs"] == [-1] else tuple(cfg["cs"])
    bc = tuple(cfg["bc"]) if cs is not None else ()
    key = {"event": e, "cond": cs, "bx": bx, "bc": bc, "ss": ss}
    desc = f"event{e} cond{cs} x-batch{bx} cond-batch{bc} sample_shape{ss}"
    d = make_dist(e, cs, variant=(len(bx) + len(ss)) % 2)
    rs = np.random.default_rng(abs(hash(desc)) % (2**31))
    x = jnp.asarray(rs.normal(size=bx + e))
    cond = None if cs is None else jnp.asarray(rs.normal(size=bc + cs))
    k0 = jr.PRNGKey(int(rs.integers(2**31)))
    xs = np.asarray(x).reshape((-1,) + e) if int(np.prod(bx)) > 0 else np.zeros((0,) + e)
    cslices = None if cs is None else (np.asarray(cond).reshape((-1,) + cs) if int(np.prod(bc)) > 0 else np.zeros((0,) + cs))

    # ---- log_prob ----------------------------------------------------------------------------------------------
    if not c["lp_ok"]:
        rep.count(1, ("lp-reject", desc))
        try:
            out = d.log_prob(x, cond)
            rep.violation({**key, "what": "non-broadcastable batch shapes accepted"},
                          f"log_prob: {desc} does not broadcast but was accepted (result shape {np.shape(out)})")
        except Exception:  # noqa: BLE001
            pass
    else:
        try:
            lp = np.asarray(d.log_prob(x, cond))
        except Exception as ex:  # noqa: BLE001
            rep.violation({**key, "what": "log_prob raises", "error": type(ex).__name__},
                          f"log_prob: {desc} raised {type(ex).__name__}: {str(ex)[:200]}", {"case": c})
            lp = None
        if lp is not None:
            nontriv = ("lp", desc) if len(c["lp_map"]) > 1 and (len(set(m[0] for m in c["lp_map"])) > 1 or len(set(m[1] for m in c["lp_map"])) > 1) else None
            rep.count(1, nontriv)
            if lp.shape != tuple(c["lp_shape"]):
                rep.violation({**key, "what": "log_prob shape"},
                              f"log_prob: {desc}: result shape {lp.shape}, NumPy broadcasting gives {tuple(c['lp_shape'])}", {"case": c})
            else:
                flat = lp.ravel()
                for kk, (xi, ci) in enumerate(c["lp_map"]):
                    ref = float(d.log_prob(jnp.asarray(xs[xi]), None if cs is None else jnp.asarray(cslices[ci])))
                    if not (abs(flat[kk] - ref) <= 1e-12 * (1 + abs(ref))):
                        rep.violation({**key, "what": "log_prob element", "element": kk},
                                      f"log_prob: {desc}: element {kk} is {flat[kk]}, the unbatched call on x slice {xi} "
                                      f"and condition slice {ci} gives {ref}", {"case": c})
                        break
    # ---- sample / sample_and_log_prob ---------------------------------------------------------------------------
    try:
        s = np.asarray(d.sample(k0, ss, cond))
        s2 = np.asarray(d.sample(k0, ss, cond))
        sl, ll = d.sample_and_log_prob(k0, ss, cond)
        sl, ll = np.asarray(sl), np.asarray(ll)
    except Exception as ex:  # noqa: BLE001
        rep.violation({**key, "what": "sample raises", "error": type(ex).__name__},
                      f"sample: {desc} raised {type(ex).__name__}: {str(ex)[:200]}", {"case": c})
        return
    exp_shape = tuple(c["sample_shape"])
    n_el = len(c["sample_map"])
    rep.count(1, ("sample", desc) if n_el > 1 else None)
    rep.sample({"kind": "spec->code", "tlc_case": c}, 3)
    if s.shape != exp_shape or sl.shape != exp_shape or ll.shape != exp_shape[: len(exp_shape) - len(e)]:
        rep.violation({**key, "what": "sample shape"},
                      f"sample: {desc}: shapes {s.shape} / {sl.shape} / {ll.shape}; expected {exp_shape}", {"case": c})
        return
    if not np.array_equal(s, s2):
        rep.violation({**key, "what": "same key, different sample"}, f"sample: {desc}: two calls with the same key differ")
    if n_el == 0:
        return
    el = s.reshape((n_el,) + e)
    ell = sl.reshape((n_el,) + e)
    lls = ll.reshape((n_el,))
    # the randomness behind each element: for a transformed distribution, the base draw recovered with the public
    # bijection under the designated condition slice (so that a shared key is visible even when the conditions differ)
    noise = el
    if hasattr(d, "bijection") and cs is not None:
        try:
            noise = np.stack([np.asarray(d.bijection.inverse(jnp.asarray(el[kk]), jnp.asarray(cslices[ci])))
                              for kk, (_ki, ci) in enumerate(c["sample_map"])])
        except Exception:  # noqa: BLE001
            noise = el
    flat_el = noise.reshape(n_el, -1)
    if n_el > 1 and len({tuple(r) for r in flat_el.round(9).tolist()}) != n_el:
        rep.violation({**key, "what": "repeated draws"},
                      f"sample: {desc}: the {n_el} elements of one batched sample are not pairwise distinct "
                      f"(shared randomness): {flat_el[:4].tolist()}", {"case": c})
    for kk, (ki, ci) in enumerate(c["sample_map"]):
        cc = None if cs is None else jnp.asarray(cslices[ci])
        ref = float(d.log_prob(jnp.asarray(ell[kk]), cc))
        if not (abs(lls[kk] - ref) <= 1e-10 * (1 + abs(ref))):
            rep.violation({**key, "what": "sample_and_log_prob pairing", "element": kk},
                          f"sample_and_log_prob: {desc}: log-prob {lls[kk]} of element {kk} is not log_prob(sample, "
                          f"condition slice {ci}) = {ref}", {"case": c})
            break
    # I: element k uses key k of split(key, n)
    try:
        from flowjax.wrappers import unwrap
        ud = unwrap(d)
        keys = jr.split(k0, c["nkeys"])
        ok = all(np.allclose(np.asarray(ud._sample(keys[ki], None if cs is None else jnp.asarray(cslices[ci]))), el[kk], rtol=1e-12, atol=1e-12)
                 for kk, (ki, ci) in enumerate(c["sample_map"]))
        if not ok:
            rep.note(f"model-drift Vectorize: element k of a batched sample is not _sample(split(key, n)[k]) ({desc})")
            rep.add("drift_keys")
    except Exception:  # noqa: BLE001
        rep.add("drift_keys_unobservable")


def ignored_condition(rep: Report):
    """An unconditional distribution has an empty condition-batch shape whatever is passed as `condition` (composites hand
    their condition down to unconditional parts): same shapes and, for the same key, the same values as without it."""
    import jax.numpy as jnp
    import jax.random as jr
    import numpy as np
    from flowjax import bijections as bj
    from flowjax import distributions as ds
    k = jr.PRNGKey(11)
    dists = {"Normal((2,))": ds.Normal(jnp.zeros(2)), "StandardNormal((2, 3))": ds.StandardNormal((2, 3)), "Normal(())": ds.Normal(0.5, 2.0),
             "Transformed(Normal, Exp)": ds.Transformed(ds.Normal(jnp.zeros(2)), bj.Exp((2,)))}
    for name, d in dists.items():
        for cshape in ((), (3,), (5, 3), (1, 1)):
            c = jnp.ones(cshape) * 0.3
            for ss in ((), (4,), (2, 3)):
                rep.count(1, ("ignored-condition", name, cshape, ss))
                try:
                    a, b = d.sample(k, ss), d.sample(k, ss, c)
                    (sa, la), (sb, lb) = d.sample_and_log_prob(k, ss), d.sample_and_log_prob(k, ss, c)
                    pa, pb = d.log_prob(a), d.log_prob(a, c)
                except Exception as e:  # noqa: BLE001
                    rep.violation({"dist": name, "condition": list(cshape), "sample_shape": list(ss), "error": type(e).__name__},
                                  f"{name} (unconditional) with a condition of shape {cshape}, sample_shape {ss}: {type(e).__name__}: {str(e)[:160]}")
                    continue
                for what, u, v in (("sample", a, b), ("sample_and_log_prob sample", sa, sb), ("sample_and_log_prob log-prob", la, lb), ("log_prob", pa, pb)):
                    if np.shape(u) != np.shape(v) or not np.array_equal(np.asarray(u), np.asarray(v)):
                        rep.violation({"dist": name, "condition": list(cshape), "sample_shape": list(ss), "what": what},
                                      f"{name} is unconditional; {what} with sample_shape {ss}: shape {np.shape(u)} without a condition, "
                                      f"{np.shape(v)} (values {'equal' if np.shape(u) == np.shape(v) else 'n/a'}) when a condition of shape {cshape} is passed")
                        break


def main():
    ap = argparse.ArgumentParser()
    ap.add_argument("--replay")
    a = ap.parse_args()
    t = tier()
    thorough = t == "thorough"
    rep = Report(PID, t, "model_checking")
    rng = random.Random(rep.seed)
    if a.replay:
        payload = json.loads(open(a.replay).read())
        print(json.dumps(payload, indent=1)[:3000])
        if "case" in payload.get("replay", {}):
            check_case(rep, payload["replay"]["case"])
        rep.count(2, "replay-a"), rep.count(0, "replay-b")
        rep.set("states", 1), rep.set("transitions", 1), rep.set("traces_validated_against_impl", 0)
        return rep.finish()
    cfg = "MC_Vectorize_full.cfg" if thorough else "MC_Vectorize_quick.cfg"
    r = tlc.run("MC_Vectorize", cfg, workers=16, timeout=1200, coverage=False)
    rep.set("tlc_runs", {cfg: {"distinct": r.distinct, "generated": r.generated, "wall_s": round(r.wall_s, 1),
                               "result": r.violated or "no error", "cases": len(r.cases)}})
    if r.violated:
        rep.machinery_failure(f"the specification itself violates {r.violated}")
        return rep.finish()
    rep.add("states", r.distinct)
    rep.add("transitions", r.generated)
    uniq = {}
    for c in r.cases:
        cc = dict(c["cfg"])
        if cc["cs"] == [-1]:
            cc["bc"] = []            # the condition batch shape is irrelevant for unconditional distributions
        uniq.setdefault(json.dumps(cc, sort_keys=True), c)
    cases = list(uniq.values())
    budget = 4000 if thorough else 420
    picked = cases if len(cases) <= budget else rng.sample(cases, budget)
    pool.map_cases(rep, "harness.c06", "check_case", picked, chunk=12)
    rep.set("traces_validated_against_impl", 0)
    rep.set("configurations_replayed", len(picked))
    rep.set("exhaustive", len(picked) == len(cases))
    ignored_condition(rep)
    rep.set("rule", "one case per (event shape, condition shape, x batch, condition batch, sample_shape) printed by TLC; "
                    "non-trivial = more than one output element and the index map is not constant")
    rep.assume("unbatched reference values come from the same distribution's public methods called with exact shapes")
    return rep.finish()


if __name__ == "__main__":
    sys.exit(main_guard(PID, main))
