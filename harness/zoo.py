"""The population of real bijections the generator-role checks (C01, C02, C14, C18) run on (DESIGN section 5).

Cases are small picklable *specs*; `make(spec)` rebuilds the real object inside a worker process:

  {"src": "leaf", "cls": <class name>, "regime": "init" | "perturbed" | "negscale", "seed": s}
      every concrete leaf class, stand-alone, with its boundary-directed inputs (the boundary set comes from the guards
      of Elementary.tla: spline interval ends and knots, +-max_val / +-tanh(max_val) of the leaky tanh, the planar
      hyperplane, zero, float neighbours, large magnitudes)
  {"src": "prog", "prog": <Combinators.tla program>, "seed": s}
      a composition enumerated by TLC's builder machine whose exact leaves are replaced ("holes filled") by real
      transcendental leaf classes of the same shape; under an Invert only leaves that are onto the reals are used
  {"src": "flow", "factory": f, "invert": b, "cond": None | 2, "transformer": t, "dim": d, "seed": s}
      the bijection inside a premade flow, parameters perturbed

make() returns a dict: b (bijection), shape, cshape, cond (an array or None), points (list of dicts
{"x": array, "tag": str, "kink": bool}), bisect (a direction runs the bisection inverter), noinv (no inverse implemented).
"""

from __future__ import annotations

import random

import equinox as eqx
import jax
import jax.numpy as jnp
import jax.random as jr
import numpy as np

from engine import build, shim

LEAF_CLASSES = ["Affine", "Loc", "Scale", "TriangularAffine", "TriangularAffineScaled", "UserAffine", "UserShiftChain", "PartialNumpyMask", "Exp", "SoftPlus", "Tanh", "LeakyTanh", "Identity", "Flip",
                "Permute", "RationalQuadraticSpline", "RationalQuadraticSplineOffCentre", "PlanarLeaky", "PlanarTanh", "AdditiveCondition", "Coupling",
                "CouplingSpline", "MaskedAutoregressive", "MaskedAutoregressiveSpline", "MaskedAutoregressiveExp", "MaskedAutoregressiveWide",
                "BlockAutoregressiveNetwork", "BlockAutoregressiveNetworkDeep",
                "VmapSpline", "Reshape", "EmbedCondition"]
ONTO = ["Affine", "LeakyTanh", "VmapSpline", "Loc", "Flip"]          # leaves that are bijections of R^n onto R^n
FORWARD = ["Affine", "LeakyTanh", "VmapSpline", "Tanh", "SoftPlus", "Exp", "Scale"]


def perturb(tree, rs, scale):
    leaves, td = jax.tree_util.tree_flatten(tree)
    out = [l + scale * jnp.asarray(rs.normal(size=l.shape)) if eqx.is_inexact_array(l) and l.size > 0 else l for l in leaves]
    return jax.tree_util.tree_unflatten(td, out)


def _lin(rs, n, m, shape):
    W = jnp.asarray(rs.normal(size=(n, m)) * 0.7)
    return build.LinearInt(W, shape)


def leaf(cls, shape, rs, regime, key):
    """A real leaf of class `cls`; shape is used where the class allows it."""
    from flowjax import bijections as bj
    n = int(np.prod(shape)) if shape else 1
    sc = {"init": 0.0, "perturbed": 0.8, "negscale": 0.8, "wild": 3.0, "corner": 0.8}[regime]
    var = {"init": 0, "perturbed": 1, "negscale": 2, "wild": 3, "corner": 4}[regime]      # qualitatively different options are covered
    # deterministically (one per regime), never left to the seed
    if cls == "Affine":
        b = bj.Affine(jnp.asarray(rs.normal(size=shape)), jnp.asarray(rs.uniform(0.3, 2.5, size=shape)))
        if regime == "negscale":
            s = rs.uniform(0.3, 2.5, size=shape) * rs.choice([-1.0, 1.0], size=shape)
            b = eqx.tree_at(lambda a: a.scale, b, jnp.asarray(s))
        return b
    if cls == "Loc":
        return bj.Loc(jnp.asarray(rs.normal(size=shape)))
    if cls == "Scale":
        return bj.Scale(jnp.asarray(rs.uniform(0.2, 3.0, size=shape)))
    if cls == "TriangularAffine":
        d = shape[0]
        A = rs.normal(size=(d, d))
        A[np.arange(d), np.arange(d)] = rs.uniform(0.4, 2.0, size=d)
        return bj.TriangularAffine(jnp.asarray(rs.normal(size=d)), jnp.asarray(A), lower=(var % 2 == 0))
    if cls == "TriangularAffineScaled":      # every entry representable, the PRODUCT of the diagonal is not (true log-det -+800)
        d = shape[0]
        mag = [1e-22, 1e22, 1e-22, 1e22][var % 4]
        A = (np.eye(d) + 0.1 * np.tril(rs.normal(size=(d, d)), -1) + 0.1 * np.triu(rs.normal(size=(d, d)), 1)) * mag
        A[np.arange(d), np.arange(d)] = rs.uniform(0.5, 2.0, size=d) * mag
        # loc = 0: a location of order 1 added to A x of order 1e-22 would absorb x (ill-conditioning that cond(J) does not see)
        return bj.TriangularAffine(jnp.zeros(d), jnp.asarray(A), lower=(var < 2))
    if cls == "PartialNumpyMask":    # index given as a NumPy boolean mask / NumPy integer array (host arrays are pytree leaves too)
        inner = bj.Affine(jnp.asarray(rs.normal(size=2)), jnp.asarray(rs.uniform(0.5, 2.0, size=2)))
        idx = [np.array([True, False, True]), np.array([2, 0]), np.array([False, True, True]), np.array([0, 1])][var % 4]
        return bj.Partial(inner, idx, (3,))
    if cls == "UserAffine":          # a user's own AbstractBijection subclass
        from harness.userext import UserAffine
        return UserAffine(rs.normal(size=shape) * 0.5, rs.normal(size=shape))
    if cls == "UserShiftChain":      # a user's conditional bijection composed with library ones
        from harness.userext import UserAffine, UserShift
        return bj.Chain([UserShift(rs.normal(size=shape), (2,)), bj.Tanh(shape), bj.Invert(UserAffine(rs.normal(size=shape) * 0.5, rs.normal(size=shape)))])
    if cls in ("Exp", "SoftPlus", "Tanh", "Identity", "Flip"):
        return getattr(bj, cls)(shape)
    if cls == "LeakyTanh":
        return bj.LeakyTanh([1.0, 3.0, 0.5, 2.0, 20.0][var], shape)       # corner: tanh(max_val) rounds to 1.0
    if cls == "Permute":
        return bj.Permute(rs.permutation(n).reshape(shape))
    if cls in ("RationalQuadraticSpline", "RationalQuadraticSplineOffCentre"):
        ivs = [2, 3, (-2.0, 3.0)] if cls == "RationalQuadraticSpline" else [(0.5, 4.0), (-7.0, -1.0), (1.0, 1.5)]   # not containing 0
        b = bj.RationalQuadraticSpline(knots=int(rs.integers(2, 6)), interval=ivs[var % len(ivs)])
        return perturb(b, rs, sc if sc else 0.0)
    if cls == "VmapSpline":          # a spline on every element of an array
        sp = bj.RationalQuadraticSpline(knots=int(rs.integers(2, 5)), interval=[2, (-2.0, 3.0), (0.5, 4.0)][var % 3])
        sp = perturb(sp, rs, max(sc, 0.6))
        b = sp
        for ext in reversed(shape):
            b = bj.Vmap(b, axis_size=int(ext))
        return b
    if cls in ("PlanarLeaky", "PlanarTanh"):
        b = bj.Planar(key, dim=shape[0], negative_slope=[0.1, 2.0, 0.5, 3.0, 1.0][var] if cls == "PlanarLeaky" else None, width_size=4, depth=1)
        return perturb(b, rs, max(sc, 0.5) * 1.5)
    if cls == "AdditiveCondition":
        return bj.AdditiveCondition(_lin(rs, n, 2, shape), shape, (2,))
    if cls in ("Coupling", "CouplingSpline"):
        tr = bj.Affine() if cls == "Coupling" else bj.RationalQuadraticSpline(knots=3, interval=2)
        b = bj.Coupling(key, transformer=tr, untransformed_dim=shape[0] // 2 or 1, dim=shape[0], cond_dim=2, nn_width=5, nn_depth=1)
        return perturb(b, rs, max(sc, 0.4))
    if cls in ("MaskedAutoregressive", "MaskedAutoregressiveSpline"):
        tr = bj.Affine() if cls == "MaskedAutoregressive" else bj.RationalQuadraticSpline(knots=3, interval=2)
        b = bj.MaskedAutoregressive(key, transformer=tr, dim=shape[0], cond_dim=2, nn_width=5, nn_depth=1)
        return perturb(b, rs, max(sc, 0.4))
    if cls == "MaskedAutoregressiveExp":         # a transformer whose image depends on its parameters
        b = bj.MaskedAutoregressive(key, transformer=bj.Chain([bj.Exp(), bj.Affine()]), dim=shape[0], cond_dim=None, nn_width=6, nn_depth=1)
        return perturb(b, rs, max(sc, 0.3))
    if cls == "MaskedAutoregressiveWide":        # many coordinates, weights far from initialisation
        b = bj.MaskedAutoregressive(key, transformer=bj.Affine(), dim=shape[0], cond_dim=2, nn_width=shape[0] + 2, nn_depth=1)
        return perturb(b, rs, [0.5, 2.0, 6.0, 12.0, 1.0][var])
    if cls == "BlockAutoregressiveNetwork":
        b = bj.BlockAutoregressiveNetwork(key, dim=shape[0], cond_dim=None, depth=1, block_dim=2)
        return perturb(b, rs, sc * 0.5)
    if cls == "BlockAutoregressiveNetworkDeep":      # square hidden blocks (depth >= 2, block_dim >= 2), depth 0, a condition
        depth, bd, cd = [(2, 3, None), (3, 2, 2), (0, 1, None), (2, 2, 2), (0, 2, 2)][var]      # corner: a single layer AND a condition
        b = bj.BlockAutoregressiveNetwork(key, dim=shape[0], cond_dim=cd, depth=depth, block_dim=bd)
        return perturb(b, rs, max(sc, 0.3) * 0.5)
    if cls == "Reshape":
        return bj.Reshape(leaf("Affine", (n,), rs, regime, key), shape)
    if cls == "EmbedCondition":
        return bj.EmbedCondition(bj.AdditiveCondition(_lin(rs, n, 2, shape), shape, (2,)), _lin(rs, 2, 3, (2,)), (3,))
    raise ValueError(cls)


DEFAULT_SHAPE = {"PartialNumpyMask": (3,), "TriangularAffine": (3,), "TriangularAffineScaled": (16,), "PlanarLeaky": (3,), "PlanarTanh": (3,), "Coupling": (3,), "CouplingSpline": (3,),
                 "MaskedAutoregressive": (3,), "MaskedAutoregressiveSpline": (3,), "BlockAutoregressiveNetwork": (2,),
                 "BlockAutoregressiveNetworkDeep": (2,), "MaskedAutoregressiveExp": (3,), "MaskedAutoregressiveWide": (12,),
                 "RationalQuadraticSpline": (), "RationalQuadraticSplineOffCentre": (), "Reshape": (2, 2), "VmapSpline": (3,)}


def boundary_points(cls, b, shape, rs):
    """Boundary-directed inputs of a stand-alone leaf: every value its piecewise definition compares against."""
    from flowjax.wrappers import unwrap
    pts = []
    n = int(np.prod(shape)) if shape else 1

    def vec(vals, tag, kink=False):
        base = rs.normal(size=n) * 0.7
        for i, v in enumerate(vals):
            x = base.copy()
            x[i % n] = v
            p = {"x": x.reshape(shape), "tag": f"{tag}[{i % n}]={v!r}", "kink": kink}
            if kink:        # the two one-sided neighbours (smooth points) of a kink
                xm, xp = x.copy(), x.copy()
                xm[i % n], xp[i % n] = np.nextafter(v, -np.inf), np.nextafter(v, np.inf)
                p["sides"] = [xm.reshape(shape), xp.reshape(shape)]
            pts.append(p)

    if cls in ("RationalQuadraticSpline", "RationalQuadraticSplineOffCentre", "VmapSpline", "CouplingSpline", "MaskedAutoregressiveSpline"):
        ub = unwrap(b)
        sp = ub
        while not hasattr(sp, "x_pos"):
            sp = getattr(sp, "bijection", None) or getattr(sp, "transformer_constructor", None)
            if sp is None or callable(sp) and not hasattr(sp, "x_pos"):
                break
        if sp is not None and hasattr(sp, "interval"):
            lo, hi = float(sp.interval[0]), float(sp.interval[1])
            knots = [float(v) for v in np.asarray(sp.x_pos).ravel()[:6]] if cls in ("RationalQuadraticSpline", "RationalQuadraticSplineOffCentre", "VmapSpline") else []
        else:
            lo, hi, knots = -2.0, 2.0, []
        ends = [lo, hi]
        vec(ends, "interval-end", kink=True)
        vec([np.nextafter(lo, -np.inf), np.nextafter(lo, np.inf), np.nextafter(hi, -np.inf), np.nextafter(hi, np.inf)], "end-neighbour")
        vec(knots[1:-1], "knot")
        vec([lo - 1.0, hi + 1.0, -1e4, 1e4], "outside")
    elif cls == "LeakyTanh":
        m = float(b.max_val)
        vec([m, -m], "max_val")
        vec([np.nextafter(m, 0), np.nextafter(m, 9), np.nextafter(-m, 0), np.nextafter(-m, -9)], "max_val-neighbour")
        vec([0.0, m + 50, -m - 50, 1e4, -1e4], "beyond")
        t = float(np.tanh(m))       # the inverse switches at +-tanh(max_val); arctanh is singular at +-1
        vec([t, -t, np.nextafter(t, 0), np.nextafter(t, 9)], "tanh(max_val)")
        vec([1.0, -1.0, np.nextafter(1.0, 0), np.nextafter(1.0, 2), np.nextafter(-1.0, -2)], "arctanh-singularity")
    elif cls in ("PlanarLeaky",):
        ub = unwrap(b.get_planar(None)) if hasattr(b, "get_planar") else None
        if ub is not None:
            w, b0 = np.asarray(ub.weight), float(ub.bias)
            for j in range(3):
                t = rs.normal(size=n)
                x = t - (w @ t + b0) * w / (w @ w)          # on the hyperplane w.x + b = 0
                d = 1e-7 * w / np.linalg.norm(w)
                pts.append({"x": x.reshape(shape), "tag": "hyperplane", "kink": True,
                            "sides": [(x - d).reshape(shape), (x + d).reshape(shape)]})
        vec([0.0, 1e3, -1e3], "magnitude")
    elif cls in ("Tanh", "Exp", "SoftPlus"):
        vec([0.0, 4.0, -4.0], "moderate")
        vec([8.0, -9.0, 15.0, -18.0], "saturating")          # tanh within 1e-6 .. 1e-15 of +-1, still below it
        vec([1.0, -1.0, np.nextafter(1.0, 0), np.nextafter(0.0, 1), -1e-300], "primitive-singularity")
        vec([50.0, -50.0, 800.0, -800.0, 1e3, -1e3, 1e4, -1e4], "magnitude")       # exp / expm1 overflow thresholds
    else:
        vec([0.0, 1e4, -1e4], "magnitude")
    return pts


def generic_points(shape, rs, k=3, scale=1.0):
    return [{"x": rs.normal(size=shape) * scale, "tag": "generic", "kink": False} for _ in range(k)]


# ---------------------------------------------------------------------------------------------------------------
def fill(q, rs, key, onto_only=False):
    """Replace the exact leaves of a Combinators program by real leaf classes of the same shape."""
    from flowjax import bijections as bj
    k = q["k"]
    shp = lambda: build.shape_of(q["shape"])  # noqa: E731
    if k in ("aff", "scan"):
        s = shp()
        pool_ = ONTO[:3] if onto_only else FORWARD
        cls = pool_[int(rs.integers(len(pool_)))]
        if cls == "VmapSpline" and len(s) == 0:
            cls = "RationalQuadraticSpline"
        if k == "scan":
            ks = jr.split(key, 2)
            return bj.Scan(eqx.filter_vmap(lambda kk: leaf("Affine", s, np.random.default_rng(3), "perturbed", kk))(ks)) \
                if False else bj.Scan(_stacked_affine(s, rs))
        return leaf(cls, s, rs, "negscale" if cls == "Affine" else "perturbed", key)
    if k == "cadd":
        s, cs = shp(), build.shape_of(q["cs"])
        m = int(np.prod(cs)) if cs else 1
        n = int(np.prod(s)) if s else 1
        if len(s) == 1 and s[0] >= 2 and len(cs) == 1 and not onto_only:      # a conditional layer with real structure
            pick = int(rs.integers(4))
            if pick == 1:
                return perturb(bj.Coupling(key, transformer=bj.Affine(), untransformed_dim=s[0] // 2, dim=s[0], cond_dim=cs[0],
                                           nn_width=4, nn_depth=1), rs, 0.4)
            if pick == 2:
                return perturb(bj.MaskedAutoregressive(key, transformer=bj.RationalQuadraticSpline(knots=3, interval=3), dim=s[0],
                                                       cond_dim=cs[0], nn_width=4, nn_depth=1), rs, 0.4)
            if pick == 3:
                return perturb(bj.Planar(key, dim=s[0], cond_dim=cs[0], negative_slope=0.2, width_size=4, depth=1), rs, 0.5)
        return bj.AdditiveCondition(_lin(rs, n, m, s), s, cs)
    if k in ("tril", "triu"):
        n = shp()[0]
        A = rs.normal(size=(n, n)) + np.diag(rs.uniform(0.4, 2.0, size=n))
        np.fill_diagonal(A, rs.uniform(0.4, 2.0, size=n))
        return perturb(bj.TriangularAffine(jnp.asarray(rs.normal(size=n)), jnp.asarray(A), lower=(k == "tril")), rs, 0.3)
    if k == "perm":
        s = shp()
        n = int(np.prod(s)) if s else 1
        return bj.Permute(rs.permutation(n).reshape(s))
    if k == "flip":
        return bj.Flip(shp())
    if k == "ident":
        return bj.Identity(shp())
    if k == "chain":
        return bj.Chain([fill(p, rs, key, onto_only) for p in q["parts"]])
    if k == "invert":
        return bj.Invert(fill(q["p"], rs, key, True))
    if k == "vmap":
        cax = None if q["cax"] == -9 else int(q["cax"])
        if q["mapped"]:
            s = build.shape_of(q["p"]["shape"])
            locs = jnp.asarray(rs.normal(size=(q["n"],) + s))
            scales = jnp.asarray(rs.uniform(0.4, 2.0, size=(q["n"],) + s) * rs.choice([-1.0, 1.0], size=(q["n"],) + s))
            b = eqx.filter_vmap(build._aff_from_arrays)(locs, scales)
            return bj.Vmap(b, in_axes=eqx.if_array(0), in_axes_condition=cax)
        return bj.Vmap(fill(q["p"], rs, key, onto_only), axis_size=int(q["n"]), in_axes_condition=cax)
    if k == "concat":
        return bj.Concatenate([fill(p, rs, key, onto_only) for p in q["parts"]], axis=int(q["axis"]))
    if k == "stack":
        return bj.Stack([fill(p, rs, key, onto_only) for p in q["parts"]], axis=int(q["axis"]))
    if k == "partial":
        idx, shape = q["idx"], build.shape_of(q["shape"])
        if idx["kind"] == "boolarr":
            mask = np.zeros(shape[0], dtype=bool)
            mask[[int(v) for v in idx["rows"]]] = True
            ix = jnp.asarray(mask)
        else:
            ix = build.mk_index(idx)
        return bj.Partial(fill(q["p"], rs, key, onto_only), ix, shape)
    if k == "reshape":
        return bj.Reshape(fill(q["p"], rs, key, onto_only), build.shape_of(q["shape"]), build.cshape_of(q["cs"]))
    if k == "embed":
        inner = fill(q["p"], rs, key, onto_only)
        raw = build.shape_of(q["rawcs"])
        ics = inner.cond_shape
        return bj.EmbedCondition(inner, _lin(rs, int(np.prod(ics)) if ics else 1, int(np.prod(raw)), ics), raw)
    raise ValueError(k)


def _stacked_affine(s, rs):
    locs = jnp.asarray(rs.normal(size=(2,) + s))
    scales = jnp.asarray(rs.uniform(0.4, 2.0, size=(2,) + s) * rs.choice([-1.0, 1.0], size=(2,) + s))
    return eqx.filter_vmap(build._aff_from_arrays)(locs, scales)


def first_leaf_class(b):
    name = type(b).__name__
    if name == "Chain":
        return first_leaf_class(b.bijections[0])
    return name


# ---------------------------------------------------------------------------------------------------------------
def make(spec):
    rs = np.random.default_rng(spec["seed"])
    key = jr.PRNGKey(spec["seed"] % (2**31))
    out = {"bisect": False, "noinv": False, "spec": spec}
    if spec["src"] == "leaf":
        cls = spec["cls"]
        shape = DEFAULT_SHAPE.get(cls, [(3,), (2, 2), ()][spec["seed"] % 3])
        if cls in ("Permute", "Flip") and shape == ():
            shape = (3,)
        b = leaf(cls, shape, rs, spec["regime"], key)
        out["b"], out["name"] = b, f"{cls}/{spec['regime']}"
        out["points"] = boundary_points(cls, b, shape, rs) + generic_points(shape, rs, 3, 0.9)
        out["bisect"] = cls.startswith("BlockAutoregressiveNetwork")
        out["noinv"] = cls == "PlanarTanh"
    elif spec["src"] == "prog":
        from harness import comb
        b = fill(spec["prog"], rs, key)
        out["b"], out["name"] = b, "prog:" + comb.describe(spec["prog"])
        shape = tuple(b.shape)
        out["points"] = generic_points(shape, rs, 3, 0.8)
    else:
        from harness import c03
        cfg = dict(spec)
        cfg["base"] = "normal"
        if spec["factory"] in ("block_neural_autoregressive_flow", "triangular_spline_flow") and not shim.apply():
            return None
        f = c03.perturb(c03.make_flow(cfg), rs, 0.25)
        b = f.bijection
        out["b"], out["name"] = b, f"flow:{spec['factory']}/invert={spec['invert']}/cond={spec['cond']}/{spec['transformer']}/dim={spec['dim']}"
        shape = tuple(b.shape)
        pts = generic_points(shape, rs, 2, 0.8)
        if spec["transformer"] == "spline" or spec["factory"] == "triangular_spline_flow":
            for v in (3.0, -3.0, np.nextafter(3.0, 4), 40.0):
                x = rs.normal(size=shape) * 0.7
                x[int(rs.integers(shape[0]))] = v
                j = int(np.argmax(x == v))
                p = {"x": x, "tag": f"spline-interval {v!r}", "kink": abs(v) == 3.0}
                if abs(v) == 3.0:
                    xm, xp = x.copy(), x.copy()
                    xm[j], xp[j] = np.nextafter(v, -np.inf), np.nextafter(v, np.inf)
                    p["sides"] = [xm, xp]
                pts.append(p)
        out["points"] = pts
        out["bisect"] = spec["factory"] == "block_neural_autoregressive_flow"
        out["noinv"] = False
    b = out["b"]
    out["shape"] = tuple(b.shape)
    out["cshape"] = None if b.cond_shape is None else tuple(b.cond_shape)
    out["cond"] = None if out["cshape"] is None else jnp.asarray(rs.normal(size=out["cshape"]))
    return out


def specs(tier: str, seed: int, tlc_cases: list | None = None):
    rng = random.Random(seed)
    thorough = tier == "thorough"
    out = []
    for cls in LEAF_CLASSES:
        regimes = ["init", "perturbed"]
        if cls in ("Affine", "Reshape", "LeakyTanh", "RationalQuadraticSpline", "RationalQuadraticSplineOffCentre", "VmapSpline",
                   "BlockAutoregressiveNetworkDeep", "PlanarLeaky"):
            regimes.append("negscale")
        if cls in ("BlockAutoregressiveNetworkDeep", "MaskedAutoregressiveWide"):
            regimes.append("wild")
        if cls in ("BlockAutoregressiveNetworkDeep", "LeakyTanh"):
            regimes.append("corner")
        if cls == "MaskedAutoregressiveWide":
            regimes.append("negscale")
        for reg in regimes:
            for rep_ in range(2 if thorough else 1):
                out.append({"src": "leaf", "cls": cls, "regime": reg, "seed": rng.randrange(2**30)})
    progs = [c["prog"] for c in (tlc_cases or []) if c["r"]["valid"] and c["prog"]["k"] not in ("aff", "cadd", "perm", "flip", "ident", "scan", "tril", "triu")]
    k = 300 if thorough else 60
    for q in (progs if len(progs) <= k else rng.sample(progs, k)):
        out.append({"src": "prog", "prog": q, "seed": rng.randrange(2**30)})
    ncombo = 0
    for fac in ("coupling_flow", "masked_autoregressive_flow", "block_neural_autoregressive_flow", "planar_flow", "triangular_spline_flow"):
        for invert in (True, False):
            for cond in (None, 2):
                trs = ("affine", "spline") if fac in ("coupling_flow", "masked_autoregressive_flow") else ("default",)
                for tr in trs:
                    # quick: one dimension per combination, cycling deterministically so that every factory meets a
                    # single coordinate, an even and an odd size (Flip vs Permute between layers) and a larger one
                    ncombo += 1
                    dims = (1, 2, 3, 5, 9) if thorough else ((2, 3, 1, 6)[ncombo % 4],)
                    for dim in dims:
                        if fac == "coupling_flow" and dim == 1:
                            dim = 4
                        if fac == "block_neural_autoregressive_flow" and dim > 5:
                            dim = 5          # the bisection inverter: cost grows with the dimension
                        c_eff = 1 if (cond == 2 and ncombo % 3 == 0) else cond          # a single conditioning variable now and then
                        out.append({"src": "flow", "factory": fac, "invert": invert, "cond": c_eff, "transformer": tr,
                                    "dim": dim, "seed": rng.randrange(2**30)})
    return out
