"""C13 -- malformed inputs are rejected, never silently broadcast.

design      Combinators.tla: Valid(p) is the constructor verdict for every composition the builder machine grows
            (including the documented incompatibilities, generated with Valid = FALSE); SemShape / SemCond are the
            only shapes a program accepts.
spec->code  for every printed program the real constructor must accept iff TLC says Valid; for every valid program and
            every real leaf class found by introspection, every wrong shape of a small lattice that NumPy would happily
            broadcast (scalar for vector, size-1 axis, extra leading axis, transposed / permuted extents, one extent off),
            a missing condition and a mis-shaped condition must make all four methods raise; calls on the declared
            shapes return exactly the declared shape and a scalar log-det.  Distribution methods: wrong trailing
            dimensions raise.
"""

from __future__ import annotations

import argparse
import json
import random
import sys

import jax

jax.config.update("jax_enable_x64", True)

import jax.numpy as jnp  # noqa: E402
import jax.random as jr  # noqa: E402
import numpy as np  # noqa: E402

from engine import build, pool  # noqa: E402
from engine.report import Report, main_guard, tier  # noqa: E402
from harness import comb  # noqa: E402

PID = "C13"


def wrong_shapes(shape):
    """Shapes NumPy would broadcast or reshape silently, none equal to `shape`."""
    out = set()
    out.add(())                                  # scalar for anything
    out.add((1,) + shape)                        # extra leading axis
    out.add((2,) + shape)
    out.add(shape + (1,))
    if shape:
        out.add(shape[1:])                       # dropped leading axis
        for a in range(len(shape)):
            out.add(shape[:a] + (1,) + shape[a + 1:])                 # size-1 axis
            out.add(shape[:a] + (shape[a] + 1,) + shape[a + 1:])      # one extent off
        out.add(tuple(reversed(shape)))                               # transposed
        n = int(np.prod(shape))
        out.add((n,))                                                 # flattened
    out.discard(shape)
    return sorted(out)


def expect_raise(rep, key, desc, call, what):
    try:
        out = call()
    except Exception:  # noqa: BLE001  any exception counts as rejection
        return True
    shapes = [tuple(np.shape(o)) for o in (out if isinstance(out, tuple) else (out,))]
    rep.violation({**key, "what": what}, f"{desc}: {what} was accepted silently (returned shapes {shapes})")
    return False


def check_methods_reject(rep, key, desc, b, shape, cs, nontrivial=True):
    x = jnp.arange(float(max(1, int(np.prod(shape))))).reshape(shape) + 0.5
    c = None if cs is None else jnp.arange(float(max(1, int(np.prod(cs))))).reshape(cs) + 0.25
    n = 0
    for meth in comb.METHODS:
        f = getattr(b, meth)
        # the declared shapes are accepted and give back exactly the declared shape and a scalar log-det
        try:
            out = f(x, c)
            val, ld = (out if meth.endswith("log_det") else (out, None))
            if tuple(np.shape(val)) != shape or (ld is not None and np.shape(ld) != ()):
                rep.violation({**key, "method": meth, "what": "returned shape"},
                              f"{desc}.{meth}: returned shape {np.shape(val)} / log-det shape "
                              f"{None if ld is None else np.shape(ld)} for declared shape {shape}")
        except NotImplementedError:
            continue
        except Exception as e:  # noqa: BLE001
            rep.violation({**key, "method": meth, "what": "declared shape rejected", "error": type(e).__name__},
                          f"{desc}.{meth} raised {type(e).__name__} on its own declared shape {shape} / {cs}: {str(e)[:200]}")
            continue
        for ws in wrong_shapes(shape):
            xx = jnp.ones(ws) * 0.5
            expect_raise(rep, {**key, "method": meth, "x_shape": ws}, desc, lambda: f(xx, c),  # noqa: B023
                         f"x of shape {ws} (declared {shape})")
            n += 1
        if cs is not None:
            expect_raise(rep, {**key, "method": meth}, desc, lambda: f(x, None), "a missing condition")  # noqa: B023
            for wc in wrong_shapes(cs):
                cc = jnp.ones(wc) * 0.5
                expect_raise(rep, {**key, "method": meth, "cond_shape": wc}, desc, lambda: f(x, cc),  # noqa: B023
                             f"condition of shape {wc} (declared {cs})")
                n += 1
    rep.count(max(n, 1), ("reject", desc) if nontrivial else None)


def check_case(rep, c: dict):
    q, r = c["prog"], c["r"]
    key = comb.key_of(c)
    desc = key["program"]
    try:
        b = build.mk(q)
        built = True
    except Exception as e:  # noqa: BLE001
        built, err = False, e
    if not r["valid"]:
        rep.count(1, ("invalid", desc))
        if built:
            rep.violation({**key, "what": "constructor accepts a documented incompatibility"},
                          f"{desc}: the constructor accepted a composition its documentation rules out "
                          f"(declared shape {getattr(b, 'shape', None)})", {"case": c})
        return
    if not built:
        rep.violation({**key, "what": "constructor rejects a valid composition", "error": type(err).__name__},
                      f"{desc}: constructor raised {type(err).__name__}: {err}", {"case": c})
        return
    shape, cs = build.shape_of(r["shape"]), build.cshape_of(r["cs"])
    rep.sample({"kind": "spec->code", "program": desc, "accepts": [list(shape), cs], "rejects": [list(s) for s in wrong_shapes(shape)][:6]}, 3)
    check_methods_reject(rep, key, desc, b, shape, cs)


# ---------------------------------------------------------------------------------------------------------------
def leaf_instances():
    """One instance of every concrete AbstractBijection subclass (found by introspection)."""
    import equinox as eqx
    from flowjax import bijections as bj
    from flowjax.bijections.bijection import AbstractBijection
    k = jr.PRNGKey(0)
    made = {
        "Affine": bj.Affine(jnp.zeros(3), jnp.ones(3)), "Loc": bj.Loc(jnp.zeros((2, 3))), "Scale": bj.Scale(jnp.ones(2)),
        "TriangularAffine": bj.TriangularAffine(jnp.zeros(3), jnp.eye(3)),
        "AdditiveCondition": bj.AdditiveCondition(lambda c: c.sum(), (3,), (2,)),
        "Exp": bj.Exp((2,)), "SoftPlus": bj.SoftPlus((3,)), "Tanh": bj.Tanh((2, 2)), "LeakyTanh": bj.LeakyTanh(3.0, (3,)),
        "Identity": bj.Identity((2,)), "Flip": bj.Flip((3,)), "Permute": bj.Permute(jnp.array([2, 0, 1])),
        "Planar": bj.Planar(k, dim=3, cond_dim=2, width_size=4, depth=1),
        "RationalQuadraticSpline": bj.RationalQuadraticSpline(knots=3, interval=2),
        "Coupling": bj.Coupling(k, transformer=bj.Affine(), untransformed_dim=1, dim=3, cond_dim=2, nn_width=4, nn_depth=1),
        "MaskedAutoregressive": bj.MaskedAutoregressive(k, transformer=bj.Affine(), dim=3, cond_dim=2, nn_width=4, nn_depth=1),
        "BlockAutoregressiveNetwork": bj.BlockAutoregressiveNetwork(k, dim=3, cond_dim=2, depth=1, block_dim=2),
        "Chain": bj.Chain([bj.Exp((3,)), bj.Affine(jnp.zeros(3))]),
        "Scan": bj.Scan(eqx.filter_vmap(bj.Affine)(jnp.ones((2, 3)))),
        "Vmap": bj.Vmap(bj.Exp(()), axis_size=3), "Invert": bj.Invert(bj.Exp((2,))),
        "Concatenate": bj.Concatenate([bj.Exp((2,)), bj.Tanh((1,))]), "Stack": bj.Stack([bj.Exp((2,)), bj.Tanh((2,))], axis=-1),
        "Partial": bj.Partial(bj.Exp((2,)), slice(0, 2), (4,)), "Reshape": bj.Reshape(bj.Exp((4,)), (2, 2)),
        "EmbedCondition": bj.EmbedCondition(bj.AdditiveCondition(lambda c: c.sum(), (3,), (2,)), lambda c: c[:2], (5,)),
        "AdditiveCondition(scalar cond)": bj.AdditiveCondition(lambda c: c, (3,), ()),
        "EmbedCondition(scalar raw cond)": bj.EmbedCondition(bj.AdditiveCondition(lambda c: c.sum(), (3,), (2,)), lambda c: jnp.stack([c, -c]), ()),
        "Reshape(cond to scalar)": bj.Reshape(bj.AdditiveCondition(lambda c: c.sum(), (4,), (1,)), (2, 2), ()),
        "Vmap(scalar cond mapped)": bj.Vmap(bj.AdditiveCondition(lambda c: c, (), ()), axis_size=3, in_axes_condition=0),
        "Chain(scalar cond)": bj.Chain([bj.Exp((2,)), bj.AdditiveCondition(lambda c: c, (2,), ())]),
    }
    from harness.userext import UserAffine, UserShift          # the checks are installed by the base class: user subclasses get them too
    made["user-defined UserAffine"] = UserAffine(jnp.zeros((2, 3)), jnp.ones((2, 3)))
    made["user-defined UserShift (conditional)"] = UserShift(jnp.ones(3), (2,))
    made["user-defined UserShift (scalar condition)"] = UserShift(jnp.ones(2), ())
    made["Chain of user-defined"] = bj.Chain([UserAffine(jnp.zeros(3), jnp.ones(3)), UserShift(jnp.ones(3), (2,))])
    from flowjax.bijections.block_autoregressive_network import _CallableToBijection
    from flowjax.bijections.planar import _UnconditionalPlanar
    made["_CallableToBijection"] = _CallableToBijection(jnp.tanh)
    try:
        made["_UnconditionalPlanar"] = _UnconditionalPlanar(jnp.ones(3), jnp.ones(3) * 0.1, jnp.zeros(()), 0.1)
    except Exception:  # noqa: BLE001  private constructor signature may differ
        pass

    def all_subclasses(cls):
        out = set()
        for s in cls.__subclasses__():
            out.add(s)
            out |= all_subclasses(s)
        return out

    concrete = {s.__name__ for s in all_subclasses(AbstractBijection)
                if s.__module__.startswith("flowjax.bijections") and not getattr(s, "__abstractmethods__", None)}
    return made, concrete


def check_leaf_classes(rep: Report):
    made, concrete = leaf_instances()
    for name in sorted(concrete - set(made)):
        rep.note(f"unmodelled-class {name}: no instance is built for it by this check")
    for name, b in sorted(made.items()):
        shape = tuple(b.shape)
        cs = None if b.cond_shape is None else tuple(b.cond_shape)
        check_methods_reject(rep, {"class": name}, name, b, shape, cs)


def check_documented_constructor_errors(rep: Report):
    """The incompatibilities the constructors document, on real leaf classes (any exception counts as rejection)."""
    from flowjax import bijections as bj
    f = lambda c: c.sum()  # noqa: E731
    bad = {
        "Chain: mismatched shapes": lambda: bj.Chain([bj.Exp((2,)), bj.Exp((3,))]),
        "Chain: mismatched condition shapes": lambda: bj.Chain([bj.AdditiveCondition(f, (2,), (2,)), bj.AdditiveCondition(f, (2,), (3,))]),
        "Concatenate: mismatch off the axis": lambda: bj.Concatenate([bj.Exp((2, 2)), bj.Exp((2, 3))], axis=0),
        "Concatenate: mismatched condition shapes": lambda: bj.Concatenate([bj.AdditiveCondition(f, (2,), (2,)), bj.AdditiveCondition(f, (2,), (3,))]),
        "Stack: mismatched shapes": lambda: bj.Stack([bj.Exp((2,)), bj.Exp((3,))]),
        "Stack: mismatched condition shapes": lambda: bj.Stack([bj.AdditiveCondition(f, (2,), (2,)), bj.AdditiveCondition(f, (2,), (3,))]),
        "Partial: index set does not fit": lambda: bj.Partial(bj.Exp((3,)), slice(0, 2), (4,)),
        "Partial: bool mask does not fit": lambda: bj.Partial(bj.Exp((3,)), jnp.array([True, False, True, False]), (4,)),
        "Partial: int index leaves the wrong shape": lambda: bj.Partial(bj.Exp((2,)), 0, (3,)),
        "Reshape: element count changes": lambda: bj.Reshape(bj.Exp((4,)), (3,)),
        "Reshape: cond element count changes": lambda: bj.Reshape(bj.AdditiveCondition(f, (2,), (4,)), (2,), (3,)),
        "Reshape: cond_shape for an unconditional bijection": lambda: bj.Reshape(bj.Exp((4,)), (2, 2), (2,)),
        "Transformed: base and bijection with different condition shapes": lambda: __import__("flowjax.distributions", fromlist=["x"]).Transformed(
            __import__("flowjax.distributions", fromlist=["x"]).Transformed(__import__("flowjax.distributions", fromlist=["x"]).Normal(jnp.zeros(2)), bj.AdditiveCondition(f, (2,), (2,))),
            bj.AdditiveCondition(f, (2,), (3,))),
        "Transformed: bijection shape differs from the base distribution's": lambda: __import__("flowjax.distributions", fromlist=["x"]).Transformed(
            __import__("flowjax.distributions", fromlist=["x"]).Normal(jnp.zeros(2)), bj.Exp((3,))).log_prob(jnp.ones(3)),
        "Vmap: both in_axes and axis_size": lambda: bj.Vmap(bj.Exp(()), in_axes=0, axis_size=3),
        "Vmap: neither in_axes nor axis_size": lambda: bj.Vmap(bj.Exp(())),
        "Coupling: transformer with a shape": lambda: bj.Coupling(jr.PRNGKey(0), transformer=bj.Affine(jnp.zeros(2)), untransformed_dim=1, dim=3, nn_width=2, nn_depth=1),
        "MaskedAutoregressive: conditional transformer": lambda: bj.MaskedAutoregressive(jr.PRNGKey(0), transformer=bj.AdditiveCondition(f, (), (2,)), dim=3, nn_width=2, nn_depth=1),
    }
    for name, ctor in bad.items():
        rep.count(1, ("ctor", name))
        try:
            obj = ctor()
        except Exception:  # noqa: BLE001
            continue
        rep.violation({"constructor": name}, f"constructor accepted: {name} (declared shape {getattr(obj, 'shape', None)})")


def _user_dist(shape, cond_shape):
    from flowjax.distributions import AbstractDistribution

    class Summing(AbstractDistribution):
        """log-density that would silently broadcast: -sum(x^2) (- sum(condition))."""
        shape: tuple
        cond_shape: tuple | None

        def _log_prob(self, x, condition=None):
            return -jnp.sum(x**2) - (0.0 if condition is None else jnp.sum(condition))

        def _sample(self, key, condition=None):
            return jr.normal(key, self.shape) + (0.0 if condition is None else jnp.sum(condition))

    return Summing(shape, cond_shape)


def check_distributions(rep: Report):
    """Distribution methods raise when trailing dimensions do not match."""
    from flowjax import distributions as ds
    import equinox as eqx
    from flowjax.bijections import AdditiveCondition
    k = jr.PRNGKey(1)
    dists = {
        "Normal(3,)": ds.Normal(jnp.zeros(3)), "Normal(2,3)": ds.Normal(jnp.zeros((2, 3))), "StandardNormal()": ds.StandardNormal(()),
        "Transformed cond(3,|2)": ds.Transformed(ds.Normal(jnp.zeros(3)), AdditiveCondition(lambda c: c.sum(), (3,), (2,))),
        "MultivariateNormal(3)": ds.MultivariateNormal(jnp.zeros(3), jnp.eye(3)),
        # distributions that are not Transformed: no bijection re-checks x behind the distribution's own check
        "StandardNormal(3,)": ds.StandardNormal((3,)), "StandardNormal(2,3)": ds.StandardNormal((2, 3)),
        "user-defined (3,)": _user_dist((3,), None), "user-defined (2,)|(3,)": _user_dist((2,), (3,)),
    }
    for name, d in dists.items():
        shape = tuple(d.shape)
        cs = None if d.cond_shape is None else tuple(d.cond_shape)
        c = None if cs is None else jnp.ones(cs)
        try:
            lp = d.log_prob(jnp.ones((4,) + shape) * 0.1, c)
            s = d.sample(k, (2,), c)
            if np.shape(lp) != (4,) or np.shape(s) != (2,) + shape:
                rep.violation({"dist": name, "what": "returned shape"}, f"{name}: log_prob shape {np.shape(lp)}, sample shape {np.shape(s)}")
        except Exception as e:  # noqa: BLE001
            rep.violation({"dist": name, "what": "valid call raises", "error": type(e).__name__}, f"{name}: {type(e).__name__}: {e}")
        bad = [ws for ws in wrong_shapes(shape) if not (len(ws) >= len(shape) and ws[len(ws) - len(shape):] == shape)]
        for ws in bad:
            expect_raise(rep, {"dist": name, "x_shape": ws}, name, lambda: d.log_prob(jnp.ones(ws) * 0.1, c),  # noqa: B023
                         f"log_prob of x with shape {ws} (event shape {shape})")
            rep.count(1, ("dist", name, ws))
        if cs is not None:
            expect_raise(rep, {"dist": name}, name, lambda: d.log_prob(jnp.ones(shape)), "log_prob without the condition")
            expect_raise(rep, {"dist": name}, name, lambda: d.sample(k, ()), "sample without the condition")
            for wc in [w for w in wrong_shapes(cs) if not (len(w) >= len(cs) and w[len(w) - len(cs):] == cs)]:
                expect_raise(rep, {"dist": name, "cond_shape": wc}, name, lambda: d.log_prob(jnp.ones(shape), jnp.ones(wc)),  # noqa: B023
                             f"log_prob with condition of shape {wc} (cond_shape {cs})")
                expect_raise(rep, {"dist": name, "cond_shape": wc}, name, lambda: d.sample(k, (), jnp.ones(wc)),  # noqa: B023
                             f"sample with condition of shape {wc} (cond_shape {cs})")
                rep.count(2, ("dist-cond", name, wc))


def replay_utils(rep: Report):
    """flowjax.utils.merge_cond_shapes / check_shapes_match (the mechanism behind the constructors' shape errors) against
    every list of up to three shapes enumerated by Utils.tla."""
    from engine import tlc
    from flowjax.utils import check_shapes_match, merge_cond_shapes
    r = tlc.run("MC_Utils", "MC_Utils.cfg", workers=4, coverage=False, timeout=300)
    if r.violated:
        rep.machinery_failure(f"Utils.tla violates {r.violated}")
        return
    rep.add("states", r.distinct)
    rep.add("transitions", r.generated)
    seen = set()
    for c in r.cases:
        k = json.dumps(c["shapes"])
        if k in seen:
            continue
        seen.add(k)
        shapes = [None if s == [-1] else tuple(s) for s in c["shapes"]]
        rep.count(1, ("utils", k))
        try:
            got = merge_cond_shapes(shapes)
            verdict = "none" if got is None else "shape"
        except Exception:  # noqa: BLE001
            got, verdict = None, "error"
        if verdict != c["merge"] or (verdict == "shape" and tuple(got) != tuple(c["merged"])):
            rep.violation({"helper": "merge_cond_shapes", "shapes": c["shapes"]},
                          f"merge_cond_shapes({shapes}) -> {verdict} {got}; documented: {c['merge']} {c['merged']}")
        if shapes and all(s is not None for s in shapes):
            try:
                check_shapes_match(shapes)
                ok = True
            except Exception:  # noqa: BLE001
                ok = False
            if ok != c["allmatch"]:
                rep.violation({"helper": "check_shapes_match", "shapes": c["shapes"]},
                              f"check_shapes_match({shapes}) {'accepted' if ok else 'raised'}; the shapes {'match' if c['allmatch'] else 'differ'}")


def main():
    ap = argparse.ArgumentParser()
    ap.add_argument("--replay")
    a = ap.parse_args()
    t = tier()
    thorough = t == "thorough"
    rep = Report(PID, t, "model_checking")
    rng = random.Random(rep.seed)
    if a.replay:
        payload = json.loads(open(a.replay).read())
        print(json.dumps(payload, indent=1)[:3000])
        if "case" in payload.get("replay", {}):
            check_case(rep, payload["replay"]["case"])
        rep.count(2, "replay-a"), rep.count(0, "replay-b")
        rep.set("states", 1), rep.set("transitions", 1), rep.set("traces_validated_against_impl", 0)
        return rep.finish()
    cases = comb.run_tlc(rep, thorough)
    invalid = [c for c in cases if not c["r"]["valid"]]
    valid = [c for c in cases if c["r"]["valid"]]
    budget = 6000 if thorough else 260
    picked = valid if len(valid) <= budget else rng.sample(valid, budget)
    ib = 4000 if thorough else 160
    inv_b = invalid if len(invalid) <= ib else rng.sample(invalid, ib)
    pool.map_cases(rep, "harness.c13", "check_case", picked + inv_b)
    check_leaf_classes(rep)
    check_documented_constructor_errors(rep)
    check_distributions(rep)
    replay_utils(rep)
    rep.set("traces_validated_against_impl", 0)
    rep.set("programs_replayed", {"valid": len(picked), "invalid": len(inv_b)})
    rep.set("rule", "evaluations = rejected calls attempted (method x wrong shape) + constructor verdicts; one distinct "
                    "non-trivial case per program / leaf class / documented incompatibility / distribution x wrong shape")
    rep.assume("any exception counts as rejection; only the incompatibilities the property names are demanded of "
               "constructors (indices are kept in range: JAX clamps out-of-range integer indices by design)")
    return rep.finish()


if __name__ == "__main__":
    sys.exit(main_guard(PID, main))
