"""C18 -- finite log-probabilities have finite gradients; log_prob is never NaN.  See harness/genmain.py, genchecks.case_c18."""
from harness import genmain

if __name__ == "__main__":
    genmain.run("C18", "case_c18",
                "one evaluation per (bijection, orientation inside Transformed(StandardNormal, .), point); points are the "
                "boundary-directed set of every leaf (interval ends, knots, +-max_val, hyperplane, 0, float neighbours, "
                "large magnitudes) plus generic points; non-trivial = log_prob finite and both gradients evaluated",
                ["the orientation whose log_prob runs the bisection inverter is checked for the value clause only "
                 "(reverse-mode differentiation through lax.while_loop is refused by JAX)"])
