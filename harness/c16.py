"""C16 -- training loops stop and select parameters as documented.

design      TLC, exhaustive: FitToData (all orderings of L distinct losses x patience x max_epochs x return_best),
            FitVariational (same for steps); liveness under weak fairness; tie variants; the as-found variational
            best rule is refuted by TLC (non-vacuity of ReturnsArgmin).
spec->code  every terminal state TLC prints (CASE lines) is replayed into the real fit_to_data /
            fit_to_variational_target with a scripted loss and the counting optimiser; epochs run, recorded losses
            and the returned parameter value must equal what TLC computed.
code->spec  the event traces of those runs (and of randomised configurations) are validated by Trace_FitToData /
            Trace_FitVariational, I layer then P layer.
"""

from __future__ import annotations

import argparse
import json
import random
import sys

import os

import jax
import numpy as np

X64 = os.environ.get("VERIF_X64", "1") == "1"          # the near-tie pass runs in a subprocess with VERIF_X64=0
jax.config.update("jax_enable_x64", X64)

from engine import observe, tlc, tracecheck  # noqa: E402
from engine.report import Report, main_guard, tier  # noqa: E402

PID = "C16"
FTD_GUARDS = ["MaxEpochs", "StopsWhenPatienceExceeded", "OneLossPerEpoch", "RecordedLosses", "NeverEarly",
              "ReturnsArgmin", "ReturnsLast", "FreshKey", "Partition", "AtMostOncePerEpoch", "Aligned",
              "OnlyRemainderSkipped", "OnlyRemainderSkippedVal", "BatchNotLarger", "SplitProportion",
              "NoValidationGradient"]
VAR_GUARDS = ["ExactlySteps", "OneLossPerStep", "ReturnsArgmin", "ReturnsLast", "FreshKey"]

# data configurations the TLC cases (n = 2, one update per epoch) are also replayed on: (n, batch, val_prop)
ALT = [(2, 1, 0.5), (5, 2, 0.2), (7, 3, 0.3), (6, 10, 0.5), (9, 2, 0.45)]


def model_check(rep: Report, thorough: bool):
    runs = [
        ("MC_FitToData", "MC_FitToData_stop.cfg" if thorough else "MC_FitToData_stop_small.cfg", True, None),
        ("MC_FitToData", "MC_FitToData_ties.cfg", True, None),
        ("MC_FitToData", "MC_FitToData_live.cfg", False, None),
        ("FitVariational", "MC_FitVariational_full.cfg" if thorough else "MC_FitVariational_fixed.cfg", True, None),
        ("FitVariational", "MC_FitVariational_ties.cfg", True, None),
        ("FitVariational", "MC_FitVariational_live.cfg", False, None),
        ("FitVariational", "MC_FitVariational_asfound.cfg", True, "ReturnsArgmin"),
    ]
    per = {}
    for module, cfg, cov, expect_refuted in runs:
        r = tlc.run(module, cfg, workers=16, coverage=cov, timeout=1500)
        per[cfg] = {"distinct": r.distinct, "generated": r.generated, "depth": r.depth, "wall_s": round(r.wall_s, 1),
                    "result": r.violated or "no error"}
        if expect_refuted:
            if r.violated != expect_refuted:
                rep.machinery_failure(f"{cfg}: TLC was expected to refute {expect_refuted} (non-vacuity), got "
                                      f"{r.violated}")
            continue
        if r.violated:
            rep.machinery_failure(f"the specification itself violates {r.violated} under {cfg}")
            continue
        rep.add("states", r.distinct)
        rep.add("transitions", r.generated)
        if cov:
            zero = [a for a, (n, _d) in r.actions.items() if n == 0 and a not in ("Emit",)]
            for a in ("Split", "TrainBatch", "EndVal", "Decide", "Exhaust", "Return", "Step"):
                if a in r.actions:
                    per[cfg][a] = r.actions[a][0]
            if zero:
                rep.machinery_failure(f"vacuous run {cfg}: actions never taken {zero}")
    rep.set("tlc_runs", per)


def emit_cases(module, cfg):
    r = tlc.run(module, cfg, workers=4, coverage=False, timeout=900)
    if r.violated or not r.cases:
        raise tlc.TLCError(f"{cfg}: no cases emitted ({r.violated})")
    return r.cases, r


def replay_fit_to_data(rep: Report, cases: list, rng: random.Random, budget: int, traces: list):
    S = observe.DataSession()
    if len(cases) <= budget:
        picked = cases
    else:       # every (max_epochs, patience, return_best) stratum first, the rest at random
        strata = {}
        for c in cases:
            strata.setdefault((c["cfg"]["maxEpochs"], c["cfg"]["patience"], c["cfg"]["returnBest"]), []).append(c)
        picked = [rng.choice(v) for _k, v in sorted(strata.items(), key=lambda kv: str(kv[0]))][:budget]
        rest = [c for c in cases if c not in picked]
        picked += rng.sample(rest, max(0, min(len(rest), budget - len(picked))))
    for i, c in enumerate(picked):
        cfg = c["cfg"]
        n, batch, vp = ALT[0] if i % 3 else ALT[rng.randrange(len(ALT))]
        nval = round(vp * n)
        upe = (n - nval) // min(batch, n - nval)
        script = list(c["val"]) + [50 + j for j in range(cfg["maxEpochs"] - len(c["val"]))]   # never reached
        kw = dict(n=n, batch=batch, val_prop=vp, max_epochs=cfg["maxEpochs"], patience=cfg["patience"],
                  return_best=cfg["returnBest"], script_by_epoch=script, has_cond=bool(i % 2), seed=i,
                  table_size=8 * 5 + 2)
        try:
            t = S.run(**kw)
        except Exception as e:  # noqa: BLE001  the loop must run for every such configuration
            rep.violation({"loop": "fit_to_data", "error": type(e).__name__, "case": c},
                          f"fit_to_data raised {type(e).__name__}: {e} for {kw}", {"kw": kw, "case": c})
            continue
        exp_theta = c["ret"] * upe
        got = t["ret"]
        ok = (got["nvl"] == c["epochs"] and got["ntl"] == c["ntrain"] and got["val"] == list(c["val"])
              and got["theta"] == exp_theta)
        rep.count(1, ("ftd", json.dumps(cfg, sort_keys=True), tuple(c["val"])) if c["epochs"] > 0 else None)
        rep.sample({"kind": "spec->code fit_to_data", "tlc_case": c, "data": [n, batch, vp], "observed": got}, 3)
        if not ok:
            which = ("returned parameters" if got["theta"] != exp_theta else
                     "number of epochs / recorded losses")
            rep.violation(
                {"loop": "fit_to_data", "what": which, "return_best": cfg["returnBest"], "patience": cfg["patience"],
                 "max_epochs": cfg["maxEpochs"], "losses": c["val"]},
                f"fit_to_data({kw}) : {which} differ from the specification: expected epochs={c['epochs']} "
                f"val={c['val']} theta={exp_theta}, observed {got}", {"kw": kw, "case": c, "observed": got})
        traces.append(t)


def replay_variational(rep: Report, cases: list, rng: random.Random, budget: int, traces: list):
    V = observe.VariationalSession()
    picked = cases if len(cases) <= budget else rng.sample(cases, budget)
    for i, c in enumerate(picked):
        cfg = c["cfg"]
        script = list(c["losses"]) + [60 + j for j in range(3)]
        kw = dict(steps=cfg["steps"], return_best=cfg["returnBest"], script=script, seed=i, table_size=12)
        try:
            t = V.run(**kw)
        except Exception as e:  # noqa: BLE001
            rep.violation({"loop": "fit_to_variational_target", "error": type(e).__name__, "case": c},
                          f"fit_to_variational_target raised {type(e).__name__}: {e} for {kw}", {"kw": kw})
            continue
        got = t["ret"]
        rep.count(1, ("var", json.dumps(cfg, sort_keys=True), tuple(c["losses"])) if cfg["steps"] > 0 else None)
        rep.sample({"kind": "spec->code fit_to_variational_target", "tlc_case": c, "observed": got}, 6)
        if not (got["nl"] == cfg["steps"] and got["losses"] == list(c["losses"]) and got["theta"] == c["ret"]):
            which = "returned parameters" if got["theta"] != c["ret"] else "number of steps / recorded losses"
            rep.violation(
                {"loop": "fit_to_variational_target", "what": which, "return_best": cfg["returnBest"]},
                f"fit_to_variational_target(steps={cfg['steps']}, return_best={cfg['returnBest']}) with scripted "
                f"losses {c['losses']}: {which} differ from the specification: expected theta={c['ret']} (the "
                f"parameters at which the minimum loss was evaluated), observed {got}",
                {"kw": kw, "case": c, "observed": got})
        traces.append(t)


def random_traces(rng: random.Random, count: int, ftd: list, var: list):
    """Randomised configurations beyond the TLC grid: longer runs, ties, several updates per epoch."""
    S, V = observe.DataSession(), observe.VariationalSession()
    shapes = [(2, 1, 0.5), (5, 2, 0.2), (7, 3, 0.3), (6, 10, 0.5), (9, 2, 0.45), (12, 4, 0.25)]
    for i in range(count):
        n, batch, vp = shapes[i % len(shapes)]
        me = rng.randrange(0, 9)
        ties = rng.random() < 0.25
        script = [rng.randrange(1, 4 if ties else 90) for _ in range(me)]
        if not ties:
            script = rng.sample(range(1, 90), me)
        ftd.append(S.run(n=n, batch=batch, val_prop=vp, max_epochs=me, patience=rng.randrange(0, 5),
                         return_best=rng.random() < 0.6, script_by_epoch=script, has_cond=rng.random() < 0.5,
                         seed=1000 + i, table_size=8 * 5 + 2))
        steps = rng.randrange(0, 10)
        vs = [rng.randrange(1, 4) for _ in range(steps + 1)] if ties else rng.sample(range(1, 90), steps + 1)
        if i % 4 == 3 and steps >= 2:       # a NaN loss somewhere after the first step (0 in the script), training carries on
            vs[rng.randrange(1, steps)] = 0
        var.append(V.run(steps=steps, return_best=rng.random() < 0.6, script=vs, seed=2000 + i, table_size=12))


def real_runs(rep: Report, rng: random.Random, count: int, ftd: list):
    """Real flows trained with the library's own loss and real optimisers; the epoch whose parameters were returned is
    identified by parameter digests, validation losses enter the trace as ranks."""
    import jax.numpy as jnp
    import jax.random as jr
    import optax
    from flowjax import distributions as ds
    from flowjax import flows
    S = observe.RealDataSession()
    for i in range(count):
        k = jr.PRNGKey(rng.randrange(2**31))
        k1, k2, k3 = jr.split(k, 3)
        cond = [None, 2][i % 2]
        dim = 2
        if i % 3 == 0:
            flow = flows.masked_autoregressive_flow(k1, base_dist=ds.Normal(jnp.zeros(dim)), cond_dim=cond, flow_layers=2, nn_width=6)
        elif i % 3 == 1:
            flow = flows.coupling_flow(k1, base_dist=ds.Normal(jnp.zeros(dim)), cond_dim=cond, flow_layers=2, nn_width=6)
        else:
            flow = ds.Normal(jnp.zeros(dim), jnp.ones(dim)) if cond is None else \
                flows.planar_flow(k1, base_dist=ds.Normal(jnp.zeros(dim)), cond_dim=cond, flow_layers=2, negative_slope=0.1, width_size=5, depth=1)
        n = rng.choice([9, 14, 23, 31])
        x = jr.normal(k2, (n, dim)) * 1.3 + 0.4
        c = None if cond is None else jr.normal(k3, (n, cond))
        kw = dict(max_epochs=rng.randrange(2, 8), patience=rng.randrange(0, 3), batch=rng.choice([3, 5, 50]),
                  val_prop=rng.choice([0.2, 0.3, 0.5]), return_best=bool(i % 4), seed=3000 + i)
        opt = [optax.adam(0.05), optax.sgd(0.05), optax.adam(0.3)][i % 3]      # the large rate makes the loss go up and down
        try:
            t, finite = S.run(dist=flow, x=x, condition=c, optimizer=opt, **kw)
        except Exception as e:  # noqa: BLE001
            rep.violation({"loop": "fit_to_data", "driver": "real training", "error": type(e).__name__},
                          f"real training run raised {type(e).__name__}: {str(e)[:200]} ({kw})")
            continue
        if not finite:
            rep.add("real_runs_skipped_nonfinite_loss")
            continue
        ftd.append(t)
        rep.count(1, ("real", i, json.dumps(kw, sort_keys=True)))


def near_tie_runs(count: int, seed: int, ftd: list):
    """float32 (the library's default dtype): validation losses of several batches per epoch whose epoch means differ by
    less than one float32 ulp or not at all.  Whatever precision the loop keeps its history in, it must stop by the rule
    evaluated on the history it returns (which enters the trace as ranks, ties preserved)."""
    import jax.numpy as jnp
    import optax
    rng = random.Random(seed)
    S = observe.RealDataSession()
    for i in range(count):
        a, b, m = rng.randrange(1, 4), rng.randrange(0, 3), rng.choice([2, 3, 4])
        base = rng.choice([1.0, 2.0, 0.75])
        ulp = float(np.spacing(np.float32(base)))

        def inner(params, static, x, condition=None, key=None, a=a, b=b, m=m, base=base, ulp=ulp):
            theta = params[0]
            k = jnp.mod(a * jnp.round(jnp.abs(theta)) + b * x[0, 0], m)
            return (base + k * ulp) + theta * 2.0**-100          # the last term only carries the gradient

        n = rng.choice([8, 11, 14])
        x = jnp.stack([jnp.arange(n, dtype=jnp.float32) + 1.0, jnp.zeros(n, jnp.float32)], axis=1)
        kw = dict(max_epochs=rng.randrange(3, 9), patience=rng.randrange(0, 3), batch=rng.choice([1, 2]),
                  val_prop=rng.choice([0.3, 0.5]), return_best=bool(i % 2), seed=7000 + i)
        t, finite = S.run(dist=(jnp.asarray(0.0, jnp.float32),), x=x, condition=None, optimizer=optax.sgd(2.0**100), inner=inner, **kw)
        t["cfg"]["neartie"] = [a, b, m, base]
        ftd.append(t)


def near_tie_pass(rep: Report, count: int, ftd: list):
    import subprocess
    import tempfile
    with tempfile.NamedTemporaryFile(suffix=".json", delete=False) as f:
        out = f.name
    p = subprocess.run([sys.executable, "-m", "harness.c16", "--worker32", str(count), "--out", out], env=dict(os.environ, VERIF_X64="0"),
                       stdout=subprocess.PIPE, stderr=subprocess.STDOUT, text=True, timeout=1800)
    try:
        data = json.loads(open(out).read())
    except Exception:  # noqa: BLE001
        rep.machinery_failure(f"float32 worker failed: {p.stdout[-1500:]}")
        return
    finally:
        os.unlink(out)
    for t in data:
        ftd.append(t)
        rep.count(1, ("neartie", json.dumps(t["cfg"], sort_keys=True)))
    rep.set("near_tie_float32_traces", len(data))


def main():
    ap = argparse.ArgumentParser()
    ap.add_argument("--replay")
    ap.add_argument("--worker32", type=int)
    ap.add_argument("--out")
    a = ap.parse_args()
    if a.worker32 is not None:
        from engine.report import _jsonable
        from engine.report import seed as _seed
        tr: list = []
        near_tie_runs(a.worker32, _seed() + 16, tr)
        open(a.out, "w").write(json.dumps(_jsonable(tr)))
        return 0
    t = tier()
    thorough = t == "thorough"
    rep = Report(PID, t, "model_checking")
    rng = random.Random(rep.seed)
    ftd_traces: list = []
    var_traces: list = []
    if a.replay:
        payload = json.loads(open(a.replay).read())["replay"]
        print(json.dumps(payload, indent=1)[:4000])
        if "trace" in payload:
            mod = "Trace_FitToData" if "n" in payload["trace"]["cfg"] else "Trace_FitVariational"
            tracecheck.check(rep, mod, mod + "_I.cfg", [payload["trace"]],
                             FTD_GUARDS if mod == "Trace_FitToData" else VAR_GUARDS, pid=PID)
        elif "n" in payload.get("kw", {}):
            replay_fit_to_data(rep, [payload["case"]], rng, 1, ftd_traces)
        else:
            replay_variational(rep, [payload["case"]], rng, 1, var_traces)
        rep.count(2, "replay-a"), rep.count(0, "replay-b")
        rep.set("states", 1), rep.set("transitions", 1), rep.set("traces_validated_against_impl", 1)
        return rep.finish()

    model_check(rep, thorough)
    fcases, _ = emit_cases("MC_FitToData", "MC_FitToData_emit5.cfg" if thorough else "MC_FitToData_emit4.cfg")
    vcases, _ = emit_cases("FitVariational", "MC_FitVariational_emit4.cfg")
    rep.set("tlc_cases_emitted", {"fit_to_data": len(fcases), "fit_to_variational_target": len(vcases)})
    replay_fit_to_data(rep, fcases, rng, 1500 if thorough else 220, ftd_traces)
    replay_variational(rep, vcases, rng, 10_000, var_traces)
    random_traces(rng, 300 if thorough else 60, ftd_traces, var_traces)
    real_runs(rep, rng, 40 if thorough else 8, ftd_traces)
    near_tie_pass(rep, 120 if thorough else 24, ftd_traces)
    s1 = tracecheck.check(rep, "Trace_FitToData", "Trace_FitToData_I.cfg", ftd_traces, FTD_GUARDS, pid=PID)
    s2 = tracecheck.check(rep, "Trace_FitVariational", "Trace_FitVariational_I.cfg", var_traces, VAR_GUARDS, pid=PID)
    rep.set("traces_validated_against_impl", len(ftd_traces) + len(var_traces))
    rep.set("trace_validation", {"fit_to_data": s1, "fit_to_variational_target": s2})
    rep.sample({"kind": "code->spec trace", "trace": ftd_traces[min(5, len(ftd_traces) - 1)]}, 8)
    rep.set("rule", "spec->code: one case per terminal state of the TLC run (configuration x loss history); "
                    "non-trivial = at least one epoch / step was run; distinct by (configuration, loss history). "
                    "code->spec: every run's event trace validated by the Trace_* module")
    rep.set("exhaustive", True)
    rep.assume("losses are driven by a script indexed by the number of optimiser updates (counting optimiser); "
               "loss values are distinct except in the tie variants, where any argmin is accepted by the P layer")
    rep.assume("P layer assumes the documented epoch structure: training pass then validation pass")
    return rep.finish()


if __name__ == "__main__":
    sys.exit(main_guard(PID, main))
