"""Per-case checks of the generator-role properties C01, C02, C14, C18 over the population of harness/zoo.py.
The oracle of each is the property's own definition evaluated on the real code (DESIGN section 5)."""

from __future__ import annotations

import io

import equinox as eqx
import jax
import jax.numpy as jnp
import jax.random as jr
import numpy as np

from harness import zoo

F32 = not jax.config.jax_enable_x64          # the single-precision pass: a worker started without x64 (the library's default mode)
EPS = np.finfo(np.float32 if F32 else np.float64).eps
KAPMAX = 1e3 if F32 else 1e11


def _jacobian(f, x):
    """Forward mode first: the reverse-mode Jacobian (a vmapped backward pass) of a 3-dimensional spline coupling flow in
    the scanned inverse direction makes XLA's CPU code segfault in this environment (dmesg: tf_XLAEigen segfault at 0);
    reverse mode only where forward mode is not defined."""
    try:
        return jax.jacfwd(f)(x)
    except Exception:  # noqa: BLE001
        return jax.jacrev(f)(x)


@eqx.filter_jit
def _jac_jit(b, x, c):
    # the bijection is an argument, so the Jacobian is compiled once per bijection, not once per point
    return _jacobian(lambda v: b.transform(v, c), x)


@eqx.filter_jit
def _jac_inv_jit(b, y, c):
    return _jacobian(lambda v: b.inverse(v, c), y)


@eqx.filter_jit
def _grad_x_jit(d, x, c):
    return jax.grad(lambda v: d.log_prob(v, c))(x)


@eqx.filter_jit
def _grad_p_jit(params, static, x, c):
    return eqx.filter_grad(lambda pp: eqx.combine(pp, static).log_prob(x, c))(params)


def _jac(b, x, c):
    n = int(np.prod(x.shape)) if x.shape else 1
    J = _jac_jit(b, jnp.asarray(x, dtype=float), c)
    return np.asarray(J).reshape(n, n)


def _jac_inv(b, y, c):
    n = int(np.prod(y.shape)) if y.shape else 1
    J = _jac_inv_jit(b, jnp.asarray(y, dtype=float), c)
    return np.asarray(J).reshape(n, n)


def _jac_robust(b, x, y, c, bisect):
    """Jacobian of transform at x.  When transform itself runs the bisection inverter (a block network in the inverted
    orientation) autodiff through the search returns zeros; the Jacobian is then the inverse of the explicit direction's."""
    J = _jac(b, x, c)
    if bisect and not np.any(J):
        Ji = _jac_inv(b, y, c)
        if np.all(np.isfinite(Ji)) and abs(np.linalg.det(Ji)) > 0:
            return np.linalg.inv(Ji)
    return J


def _cond(J):
    try:
        k = np.linalg.cond(J)
        return float(k) if np.isfinite(k) else np.inf
    except Exception:  # noqa: BLE001
        return np.inf


def _key(z, p):
    return {"bijection": z["name"], "point": p["tag"]}


def _bisect_bound(J, tol):
    n = J.shape[0]
    bound = []
    for d in range(n):
        eb = sum(abs(J[d, j]) / max(abs(J[d, d]), 1e-300) * bound[j] for j in range(d))
        bound.append(tol + eb)
    return np.asarray(bound)


# ---------------------------------------------------------------------------------------------------------------
def case_c01(rep, spec):
    z = zoo.make(spec)
    if z is None:
        rep.note(f"{spec.get('factory')}: cannot be built in this environment; skipped")
        return
    b, c = z["b"], z["cond"]
    if F32:
        if z["bisect"]:
            return          # the search tolerance (1e-7) is the resolution of float32: the float64 pass judges the inverter
        if spec.get("cls") == "LeakyTanh" and spec.get("regime") == "corner":
            return          # max_val = 20: in float32 tanh(x) = 1.0 for every x >= 9.1 and the tail's intercept rounds to 1.0, so y = 1.0
                            # has no recoverable preimage whatever the implementation (the conditioning at the returned point does not show it)
        z["name"] += " [float32]"
        z["points"] = [p for p in z["points"] if np.all(np.abs(np.asarray(p["x"], float)) <= 100.0)]
    for p in z["points"]:
        x = jnp.asarray(p["x"])
        key = _key(z, p)
        try:
            y = b.transform(x, c)
            y2, _ = b.transform_and_log_det(x, c)
        except Exception as e:  # noqa: BLE001
            rep.violation({**key, "what": "transform raises", "error": type(e).__name__}, f"{z['name']}.transform({np.asarray(x)}): {type(e).__name__}: {str(e)[:200]}")
            continue
        yn = np.asarray(y)
        if not np.all(np.isfinite(yn)):
            rep.count(1)            # outside the numerically usable domain (overflow): nothing to invert
            continue
        if not np.allclose(np.asarray(y2), yn, rtol=8 * EPS, atol=8 * EPS * (1 + np.abs(yn).max())):
            rep.violation({**key, "what": "transform_and_log_det point != transform"},
                          f"{z['name']}: transform gives {yn}, transform_and_log_det gives {np.asarray(y2)} at {np.asarray(x)}")
        if z["noinv"]:
            rep.count(1)
            continue
        try:
            J = _jac_robust(b, x, y, c, z["bisect"])
            kap = _cond(J)
            xb = b.inverse(y, c)
            xb2, _ = b.inverse_and_log_det(y, c)
        except Exception as e:  # noqa: BLE001
            rep.violation({**key, "what": "inverse raises", "error": type(e).__name__}, f"{z['name']}.inverse(transform(x)) at {np.asarray(x)}: {type(e).__name__}: {str(e)[:200]}")
            continue
        xn, xbn = np.asarray(x), np.asarray(xb)
        scale = 1 + np.abs(xn).max() + np.abs(yn).max()
        # the two inverse paths are compared whatever the conditioning (the same computation: equal, or non-finite together)
        with np.errstate(invalid="ignore"):
            same = np.allclose(np.asarray(xb2), xbn, rtol=8 * EPS, atol=8 * EPS * scale, equal_nan=True) if kap > KAPMAX else True
        if not same and not z["bisect"]:
            rep.violation({**key, "what": "inverse_and_log_det point != inverse"},
                          f"{z['name']}: inverse gives {xbn}, inverse_and_log_det gives {np.asarray(xb2)} at y = {yn} (ill-conditioned point)")
        if kap > KAPMAX:
            rep.count(1)            # ill-conditioned point: no finite-precision promise
            continue
        # rounding of y (relative EPS) is amplified by |J^-1|: for an elementwise map cond(J) is 1 however flat the map is
        # (tanh at x = -18 has derivative 9e-16: an ulp of y is a quarter of a unit of x), so the bound carries |y| / sigma_min(J)
        with np.errstate(all="ignore"):
            sv = np.linalg.svd(np.atleast_2d(J), compute_uv=False)
            amp = (1 + np.abs(yn).max()) / sv.min() if sv.size and sv.min() > 0 else np.inf
        if not np.isfinite(amp) or amp > KAPMAX:
            rep.count(1)
            continue
        if z["bisect"]:
            tol = 4 * _bisect_bound(J, 1e-7).reshape(xn.shape) * scale + 1e-9 if spec["src"] == "leaf" else 1e-4 * scale * max(1.0, kap)
        else:
            tol = 256 * EPS * (scale * max(1.0, kap) + amp)
        rep.count(1, (z["name"], p["tag"][:24]))
        if not np.all(np.abs(xbn - xn) <= tol):
            rep.violation({**key, "what": "inverse(transform(x)) != x"},
                          f"{z['name']}: x = {xn.ravel().tolist()}, transform(x) = {yn.ravel().tolist()}, inverse of that = "
                          f"{xbn.ravel().tolist()} (|error| {np.abs(xbn - xn).max():.3e}, allowed {np.max(tol):.3e}, cond {kap:.2e})",
                          {"spec": spec, "point": np.asarray(x).tolist()})
        if not np.allclose(np.asarray(xb2), xbn, rtol=8 * EPS, atol=8 * EPS * scale, equal_nan=True):
            rep.violation({**key, "what": "inverse_and_log_det point != inverse"},
                          f"{z['name']}: inverse gives {xbn}, inverse_and_log_det gives {np.asarray(xb2)} at y = {yn}")
        # codomain -> domain: the point itself taken as y (if it lies in the codomain the inverse image is finite)
        try:
            xi = b.inverse(x, c)
            if np.all(np.isfinite(np.asarray(xi))):
                Ji = _jac_robust(b, xi, x, c, z["bisect"])
                ki = _cond(Ji)
                yy = np.asarray(b.transform(xi, c))
                sc2 = 1 + np.abs(xn).max() + np.abs(np.asarray(xi)).max()
                with np.errstate(all="ignore"):
                    svi = np.linalg.svd(np.atleast_2d(Ji), compute_uv=False)
                    ampi = np.abs(np.atleast_2d(Ji)).max() * (1 + np.abs(np.asarray(xi)).max()) if svi.size else np.inf      # forward amplification of the rounding of inverse(y)
                if ki <= KAPMAX and np.isfinite(ampi) and ampi <= KAPMAX:
                    tol2 = (1e-4 * sc2 * max(1.0, ki)) if z["bisect"] else 256 * EPS * (sc2 * max(1.0, ki) + ampi)
                    rep.count(1, (z["name"], "codomain", p["tag"][:24]))
                    if not np.all(np.abs(yy - xn) <= tol2):
                        rep.violation({**key, "what": "transform(inverse(y)) != y"},
                                      f"{z['name']}: y = {xn.ravel().tolist()}, inverse(y) = {np.asarray(xi).ravel().tolist()}, transform of "
                                      f"that = {yy.ravel().tolist()} (|error| {np.abs(yy - xn).max():.3e}, allowed {tol2:.3e}, cond {ki:.2e})",
                                      {"spec": spec, "point": np.asarray(x).tolist()})
        except Exception as e:  # noqa: BLE001
            rep.violation({**key, "what": "inverse raises", "error": type(e).__name__}, f"{z['name']}.inverse({xn}): {type(e).__name__}: {str(e)[:200]}")


    _integer_point(rep, z, spec)


def _integer_point(rep, z, spec):
    """A point given as an integer array (legal ArrayLike) is the same point: if the call is accepted, the result must be
    the one for the float array -- not its truncation to the input's dtype."""
    b, c = z["b"], z["cond"]
    for p in z["points"][:2]:
        xr = np.rint(np.asarray(p["x"], float))
        try:
            yf = np.asarray(b.transform(jnp.asarray(xr), c), float)
        except Exception:  # noqa: BLE001
            continue
        if not np.all(np.isfinite(yf)):
            continue
        try:
            yi = np.asarray(b.transform(jnp.asarray(xr.astype(np.int64)), c), float)
        except Exception:  # noqa: BLE001        (a loud rejection of integer input is not a wrong value)
            rep.count(1)
            continue
        rep.count(1, (z["name"], "integer dtype"))
        tol = 1e-6 * (1 + np.abs(yf).max())          # integer input may be computed in single precision (weak types)
        if yi.shape != yf.shape or not np.all(np.abs(yi - yf) <= tol):
            rep.violation({**_key(z, p), "what": "integer-dtype point"},
                          f"{z['name']}: transform of the integer array {xr.astype(int).ravel().tolist()} = {yi.ravel().tolist()}, "
                          f"of the same point as a float array = {yf.ravel().tolist()}", {"spec": spec, "point": xr.tolist()})
        return


# ---------------------------------------------------------------------------------------------------------------
def _slogdet(b, x, c, bisect=False):
    x = jnp.asarray(x)
    J = _jac(b, x, c)
    if bisect and not np.any(J):          # transform runs the bisection search: differentiate the explicit direction instead
        y = b.transform(x, c)
        Ji = _jac_inv(b, y, c)
        s, l = np.linalg.slogdet(Ji)
        return -float(l), _cond(Ji)
    s, l = np.linalg.slogdet(J)
    return float(l), _cond(J)


def _fd_logdets(b, x, c):
    """One-sided and central finite-difference log|det J| (tie-breaker only: autodiff through jnp.clip / jnp.where halves
    or drops the gradient at exact ties, e.g. when a spline output lands exactly on its interval end)."""
    xn = np.asarray(x, dtype=float)
    n = xn.size
    f0 = np.asarray(b.transform(jnp.asarray(xn), c)).ravel()
    out = []
    for mode in (1, -1, 0):
        J = np.zeros((n, n))
        for j in range(n):
            h = 2e-8 * (1 + abs(xn.ravel()[j]))          # truncation ~ h f''/f', round-off ~ eps |f| / h: both ~ 1e-7
            e = np.zeros(n)
            e[j] = h
            if mode == 0:
                fp = np.asarray(b.transform(jnp.asarray((xn.ravel() + e).reshape(xn.shape)), c)).ravel()
                fm = np.asarray(b.transform(jnp.asarray((xn.ravel() - e).reshape(xn.shape)), c)).ravel()
                J[:, j] = (fp - fm) / (2 * h)
            else:
                fp = np.asarray(b.transform(jnp.asarray((xn.ravel() + mode * e).reshape(xn.shape)), c)).ravel()
                J[:, j] = (fp - f0) / (mode * h)
        out.append(float(np.linalg.slogdet(J)[1]))
    return out


def case_c02(rep, spec):
    z = zoo.make(spec)
    if z is None:
        return
    b, c = z["b"], z["cond"]
    for p in z["points"]:
        x = jnp.asarray(p["x"])
        key = _key(z, p)
        try:
            y, ld = b.transform_and_log_det(x, c)
        except Exception as e:  # noqa: BLE001
            rep.violation({**key, "what": "transform_and_log_det raises", "error": type(e).__name__}, f"{z['name']}: {type(e).__name__}: {str(e)[:200]}")
            continue
        if not np.all(np.isfinite(np.asarray(y))):
            rep.count(1)
            continue
        if np.shape(ld) != ():
            rep.violation({**key, "what": "log-det not a scalar"}, f"{z['name']}: forward log-det has shape {np.shape(ld)}")
            continue
        ld = float(ld)
        try:
            if spec.get("src") == "leaf" and spec.get("cls") == "Tanh":
                # autodiff differentiates tanh as 1 - tanh^2, which cancels where tanh saturates (4e-4 off at x = 15, 0.5 at
                # x = 18): the reference must be better conditioned than the code it judges -- log sech^2 in its stable form
                ax = np.abs(np.asarray(x, float))
                refs = [(float(np.sum(np.log(4.0) - 2 * ax - 2 * np.log1p(np.exp(-2 * ax)))), 1.0)]
                tanh_saturated = bool(np.any(1 - np.abs(np.asarray(y, float)) < 1e-9))      # the inverse there is ill-conditioned / infinite
            elif p.get("kink") and "sides" in p:
                refs = [_slogdet(b, s, c, z["bisect"]) for s in p["sides"]]
            else:
                refs = [_slogdet(b, x, c, z["bisect"])]
        except Exception as e:  # noqa: BLE001
            rep.violation({**key, "what": "autodiff of transform raises", "error": type(e).__name__}, f"{z['name']}: {type(e).__name__}: {str(e)[:200]}")
            continue
        kap = max(r[1] for r in refs)
        if not np.isfinite(kap) or kap > 1e10:
            rep.count(1)
            continue
        tol = 1e-8 * (1 + abs(ld)) + 1e3 * EPS * kap
        if z["bisect"]:          # the point the log-det is taken at is only known to the search tolerance (1e-7)
            tol += 1e-5 * (1 + abs(ld))
        nontriv = (z["name"], p["tag"][:24]) if abs(refs[0][0]) > 1e-9 else None
        rep.count(1, nontriv)
        if not np.isfinite(ld):          # (the tolerance is relative to |ld|: an infinite report would pass any comparison)
            tol = 1e-8 + 1e3 * EPS * kap
        ok = any(abs(ld - r[0]) <= tol for r in refs)
        if not ok and np.isfinite(ld):      # autodiff tie artefact?  finite differences decide (to 1e-4: the artefacts are multiples of ln 2)
            try:
                fds = _fd_logdets(b, x, c)
                ok = any(abs(ld - f) <= 2e-4 * (1 + abs(ld)) * max(1.0, kap ** 0.5) for f in fds)
                if ok:
                    rep.add("autodiff_tie_resolved_by_finite_differences")
            except Exception:  # noqa: BLE001
                pass
        if not ok and np.isfinite(ld):
            # the point (or its one-ulp neighbour) can tie -- its image lands exactly on a clip bound -- and finite differences
            # are too coarse for a spline whose derivative varies by 1e5 per unit: extrapolate the autodiff log-det linearly
            # from 2^10 and 2^11 ulps away, along every coordinate direction (a wrong log-det differs from all of them)
            try:
                xf = np.asarray(x, float)
                dirs = []
                for j in range(xf.size):
                    for sgn in (-1.0, 1.0):
                        d = np.zeros(xf.size)
                        d[j] = sgn * np.spacing(max(abs(xf.ravel()[j]), 1e-300))
                        dirs.append(d.reshape(xf.shape))
                for d1 in dirs:
                    if ok:
                        break
                    ra = _slogdet(b, np.asarray(x, float) + d1 * 2**10, c, z["bisect"])[0]
                    rb = _slogdet(b, np.asarray(x, float) + d1 * 2**11, c, z["bisect"])[0]
                    if abs(ld - (2 * ra - rb)) <= tol + 0.05 * abs(ra - rb):
                        ok = True
                        rep.add("autodiff_tie_resolved_by_extrapolation")
            except Exception:  # noqa: BLE001
                pass
        if not ok:
            rep.violation({**key, "what": "forward log-det != log|det J|"},
                          f"{z['name']} at x = {np.asarray(x).ravel().tolist()}: reported log-det {ld}; log|det| of the autodiff "
                          f"Jacobian of transform = {[r[0] for r in refs]}{' (one-sided at a kink)' if len(refs) > 1 else ''}",
                          {"spec": spec, "point": np.asarray(x).tolist()})
        if z["noinv"] or (spec.get("src") == "leaf" and spec.get("cls") == "Tanh" and tanh_saturated):
            continue
        try:
            xb, ldi = b.inverse_and_log_det(y, c)
            _, ldf = b.transform_and_log_det(xb, c)
        except Exception as e:  # noqa: BLE001
            rep.violation({**key, "what": "inverse_and_log_det raises", "error": type(e).__name__}, f"{z['name']}: {type(e).__name__}: {str(e)[:200]}")
            continue
        if np.shape(ldi) != ():
            rep.violation({**key, "what": "log-det not a scalar"}, f"{z['name']}: inverse log-det has shape {np.shape(ldi)}")
            continue
        tol_i = 1e-8 * (1 + abs(ld)) + (1e-3 if z["bisect"] else 0.0)
        oks = [abs(float(ldi) + float(ldf)) <= tol_i] + [abs(float(ldi) + r[0]) <= tol + tol_i for r in refs]
        if not any(oks) and p.get("kink"):      # at a kink x and inverse(transform(x)) may sit on different sides
            oks.append(abs(float(ldi) + ld) <= tol_i)
        if not any(oks):
            rep.violation({**key, "what": "inverse log-det != -forward log-det"},
                          f"{z['name']}: inverse_and_log_det(transform(x)) reports {float(ldi)}; the forward log-det at the "
                          f"corresponding point is {float(ldf)}", {"spec": spec, "point": np.asarray(x).tolist()})


# ---------------------------------------------------------------------------------------------------------------
def case_c18(rep, spec):
    from flowjax.bijections import Invert
    from flowjax.distributions import StandardNormal, Transformed
    z = zoo.make(spec)
    if z is None:
        return
    b, c = z["b"], z["cond"]
    if F32:
        z["name"] += " [float32]"
    orient = [("inverted", Invert(b))] + ([] if z["noinv"] else [("direct", b)])
    for oname, bij in orient:
        try:
            d = Transformed(StandardNormal(z["shape"]), bij)
        except Exception as e:  # noqa: BLE001
            rep.violation({"bijection": z["name"], "orientation": oname, "what": "Transformed raises"}, f"{type(e).__name__}: {e}")
            continue
        uses_bisection = z["bisect"] and oname == "direct" and spec["src"] == "leaf" or \
            (z["bisect"] and spec["src"] == "flow" and ((oname == "direct") != bool(spec.get("invert"))))
        params, static = eqx.partition(d, eqx.is_inexact_array)
        for p in z["points"]:
            x = jnp.asarray(p["x"])
            key = {"bijection": z["name"], "orientation": oname, "point": p["tag"]}
            try:
                lp = float(d.log_prob(x, c))
            except Exception as e:  # noqa: BLE001
                rep.violation({**key, "what": "log_prob raises", "error": type(e).__name__}, f"{z['name']} [{oname}] log_prob({np.asarray(x)}): {type(e).__name__}: {str(e)[:200]}")
                continue
            if lp != lp:
                rep.violation({**key, "what": "log_prob is NaN"}, f"{z['name']} [{oname}]: log_prob({np.asarray(x).ravel().tolist()}) is NaN",
                              {"spec": spec, "point": np.asarray(x).tolist()})
                continue
            if not np.isfinite(lp):
                # minus infinity is a legitimate value (outside the support, underflow) -- but not at an isolated point whose
                # float neighbours on both sides have finite densities: that is an internal NaN masked as -inf, and it
                # poisons a training step just the same
                if lp == -np.inf:
                    try:
                        xn = np.asarray(x, float)
                        nb = [float(d.log_prob(jnp.asarray(np.nextafter(xn, s * np.inf)), c)) for s in (-1, 1)]
                        if all(np.isfinite(v) for v in nb):
                            rep.violation({**key, "what": "log_prob is -inf at an isolated point"},
                                          f"{z['name']} [{oname}]: log_prob({xn.ravel().tolist()}) = -inf, but {nb[0]} and {nb[1]} at the "
                                          f"float neighbours on either side", {"spec": spec, "point": xn.tolist()})
                    except Exception:  # noqa: BLE001
                        pass
                rep.count(1)
                continue
            if abs(lp) > (1e18 if F32 else 1e150):
                # within a square root of the end of the float range: the gradient's true magnitude (~ |z| |dz/dtheta| with
                # |z| = sqrt(2 |log_prob|)) need not be representable -- no implementation could return a finite number
                rep.count(1)
                continue
            if uses_bisection:       # reverse-mode through the search is refused by JAX by design: value clause only
                rep.count(1, (z["name"], oname, "value", p["tag"][:20]))
                continue
            try:
                gx = np.asarray(_grad_x_jit(d, x, c))
                gp = _grad_p_jit(params, static, x, c)
                gleaves = [np.asarray(g) for g in jax.tree_util.tree_leaves(gp)]
            except Exception as e:  # noqa: BLE001
                rep.violation({**key, "what": "gradient raises", "error": type(e).__name__}, f"{z['name']} [{oname}]: {type(e).__name__}: {str(e)[:200]}")
                continue
            rep.count(1, (z["name"], oname, p["tag"][:20]))
            if not np.all(np.isfinite(gx)):
                rep.violation({**key, "what": "non-finite input gradient"},
                              f"{z['name']} [{oname}]: log_prob({np.asarray(x).ravel().tolist()}) = {lp} is finite but its gradient with "
                              f"respect to the input is {gx.ravel().tolist()}", {"spec": spec, "point": np.asarray(x).tolist()})
            if not all(np.all(np.isfinite(g)) for g in gleaves):
                rep.violation({**key, "what": "non-finite parameter gradient"},
                              f"{z['name']} [{oname}]: log_prob({np.asarray(x).ravel().tolist()}) = {lp} is finite but a parameter "
                              f"gradient is not", {"spec": spec, "point": np.asarray(x).tolist()})


# ---------------------------------------------------------------------------------------------------------------
def case_c14(rep, spec):
    z = zoo.make(spec)
    if z is None:
        return
    b, c = z["b"], z["cond"]
    pts = z["points"][:3] + z["points"][-2:]
    X = jnp.stack([jnp.asarray(p["x"]) for p in pts])
    meths = ["transform", "transform_and_log_det"] + ([] if z["noinv"] else ["inverse", "inverse_and_log_det"])
    key = {"bijection": z["name"]}
    # a copy through flatten / unflatten and one through leaf serialisation into a freshly built model
    leaves, td = jax.tree_util.tree_flatten(b)
    b_flat = jax.tree_util.tree_unflatten(td, leaves)
    try:
        buf = io.BytesIO()
        eqx.tree_serialise_leaves(buf, b)
        buf.seek(0)
        fresh = zoo.make(spec)["b"]
        if spec.get("src") == "leaf" and spec.get("cls") == "LeakyTanh":
            # numeric constructor arguments that are leaves are restored from the file: the fresh model may be built with
            # another max_val (anything derived from it must travel with it)
            from flowjax.bijections import LeakyTanh
            fresh = LeakyTanh(float(b.max_val) * 2 + 0.5, tuple(b.shape))
        like = jax.tree_util.tree_map(lambda l: l * 0 + 0.123 if eqx.is_inexact_array(l) else l, fresh)
        b_ser = eqx.tree_deserialise_leaves(buf, like)
    except Exception as e:  # noqa: BLE001
        rep.violation({**key, "what": "serialisation raises", "error": type(e).__name__}, f"{z['name']}: {type(e).__name__}: {str(e)[:200]}")
        b_ser = None
    for m in meths:
        def call(bb, x, _m=m):
            return getattr(bb, _m)(x, c)
        try:
            eager = [jax.tree_util.tree_leaves(call(b, x)) for x in X]
            again = [jax.tree_util.tree_leaves(call(b, x)) for x in X]
            jitted = [jax.tree_util.tree_leaves(eqx.filter_jit(call)(b, x)) for x in X[:2]]
            vm = jax.tree_util.tree_leaves(jax.vmap(lambda x: call(b, x))(X))
            flat = [jax.tree_util.tree_leaves(call(b_flat, x)) for x in X[:2]]
            ser = [jax.tree_util.tree_leaves(call(b_ser, x)) for x in X[:2]] if b_ser is not None else None
        except Exception as e:  # noqa: BLE001
            rep.violation({**key, "method": m, "what": "tracing / transformation raises", "error": type(e).__name__},
                          f"{z['name']}.{m}: {type(e).__name__}: {str(e)[:300]}", {"spec": spec})
            continue
        rep.count(1, (z["name"], m))

        def same(a, bb, tol):
            a, bb = np.asarray(a), np.asarray(bb)
            if tol == 0:
                return np.array_equal(a, bb, equal_nan=True)
            fin = np.isfinite(a) & np.isfinite(bb)
            if not np.array_equal(np.isnan(a), np.isnan(bb)):
                return False
            return bool(np.all(np.abs(a[fin] - bb[fin]) <= tol * (1 + np.abs(a[fin]))))

        rtol = 1e-4 if z["bisect"] else 1e-9
        for i in range(len(X)):
            if not all(same(u, v, 0) for u, v in zip(eager[i], again[i])):
                rep.violation({**key, "method": m, "what": "two eager calls differ"}, f"{z['name']}.{m}: repeated call differs")
            if not all(same(u, np.asarray(v)[i], rtol) for u, v in zip(eager[i], vm)):
                rep.violation({**key, "method": m, "what": "vmap != python loop"},
                              f"{z['name']}.{m}: vmap over inputs gives {[np.asarray(v)[i].tolist() for v in vm]}, the loop gives {[np.asarray(u).tolist() for u in eager[i]]}", {"spec": spec})
                break
        for i in range(2):
            if not all(same(u, v, rtol) for u, v in zip(eager[i], jitted[i])):
                rep.violation({**key, "method": m, "what": "jit != eager"},
                              f"{z['name']}.{m}: under filter_jit {[np.asarray(v).tolist() for v in jitted[i]]}, eagerly {[np.asarray(u).tolist() for u in eager[i]]}", {"spec": spec})
            if not all(same(u, v, 0) for u, v in zip(eager[i], flat[i])):
                rep.violation({**key, "method": m, "what": "flatten/unflatten copy differs"}, f"{z['name']}.{m}: copy through tree_flatten/unflatten behaves differently")
            if ser is not None and not all(same(u, v, 0) for u, v in zip(eager[i], ser[i])):
                rep.violation({**key, "method": m, "what": "deserialised copy differs"}, f"{z['name']}.{m}: copy through tree_serialise_leaves / tree_deserialise_leaves behaves differently")
