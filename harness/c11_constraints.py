"""C11, spec -> code: every case of tla/Constraints.tla (the constraint mechanisms in exact rationals) replayed into the
real objects.  TLC checks the identities on the model; here the real constrained values are compared with the model's
formula, evaluated in float64 with the real softplus / softmax in place of the abstract positive values, and the
clause of C11 the mechanism is there for is evaluated on the real values."""
from __future__ import annotations

import json
from fractions import Fraction

import numpy as np

from engine import tlc
from engine.report import Report


def _softplus(v):
    return np.logaddexp(0.0, v)


def run_spec(rep: Report):
    r = tlc.run("MC_Constraints", "MC_Constraints.cfg", workers=8, coverage=False, timeout=600)
    if r.violated:
        rep.machinery_failure(f"Constraints.tla violates {r.violated}")
    d = tlc.run("MC_Constraints", "MC_Constraints_defect.cfg", workers=8, coverage=False, timeout=600)
    if "PlanarInvertible" not in (d.violated or ""):
        rep.machinery_failure("Constraints.tla with the slope division removed does not violate PlanarInvertible: the invariant is vacuous")
    cases = {}
    for c in r.cases:
        cases.setdefault(json.dumps(c, sort_keys=True), c)
    rep.set("constraints_states", r.generated)
    return list(cases.values())


def planar_cause(w, ur, wu_hat, slopes, eps):
    """which specific input made the real layer singular (identifies the recorded findings, nothing else)."""
    wur = float(w @ ur)
    if not np.any(w != 0):
        return "planar weight w == 0: 0/0 in the constraint of u"
    g = float(np.log1p(_softplus(wur)))
    tol = 64 * eps * max(1.0, abs(wur))
    # the recorded finding: g = log(1 + softplus(w.u)) is below the rounding error (~ eps |w.u|) of the projection, and the
    # computed 1 + s w.u_hat is wrong by no more than that rounding error
    if np.isfinite(wu_hat) and g < tol and min(abs(1 + s * wu_hat) for s in slopes) <= tol * max(slopes):
        return "planar w.u so negative that w.u_hat rounds to -1 (softplus underflow / cancellation)"
    return f"planar w.u_hat = {wu_hat!r} for raw w.u = {wur!r}"


def replay(rep: Report, cases: list, thorough: bool):
    import equinox as eqx
    import jax
    import jax.numpy as jnp
    import jax.random as jr
    from flowjax import bijections as bj
    from flowjax import distributions as ds
    from flowjax.bijections.rational_quadratic_spline import RationalQuadraticSpline
    from flowjax.flows import _affine_with_min_scale
    from flowjax.wrappers import WeightNormalization, unwrap

    drift = {}

    def drifted(family, msg):
        """implementation layer: the mechanism computes something else than the model, the clause of C11 still holds."""
        drift[family] = drift.get(family, 0) + 1
        if drift[family] <= 2:
            rep.note(f"model-drift Constraints.{family}: {msg}")

    fam = {}
    for c in cases:
        fam.setdefault(c["fam"], []).append(c)
    rep.set("constraints_cases", {k: len(v) for k, v in fam.items()})

    # ------------------------------------------------------------------------------------------------ planar
    by_slope = {}
    for c in fam.get("planar", []):
        by_slope.setdefault(tuple(c["slope"]), []).append(c)
    for (sn, sd), cs in sorted(by_slope.items()):
        slope = None if sn == 0 else sn / sd
        for dtype, eps in ((jnp.float64, 2.3e-16), (jnp.float32, 1.2e-7)):
            tmpl = unwrap(bj.Planar(jr.PRNGKey(0), dim=2, negative_slope=slope).get_planar(None))
            W = np.array([[v * 10.0 ** c["e"] for v in c["w"]] for c in cs])
            U = np.array([[v * (10.0 if c["e"] < 0 else 1.0) for v in c["u"]] for c in cs])      # inside the box |raw| <= 50
            Wd, Ud = jnp.asarray(W, dtype), jnp.asarray(U, dtype)

            def act_scale(w, u, tmpl=tmpl):
                m = eqx.tree_at(lambda p: (p.weight, p._act_scale), tmpl, (w, u))
                return m.get_act_scale()
            try:
                UH = np.asarray(jax.jit(jax.vmap(act_scale))(Wd, Ud)).astype(np.float64)
            except Exception as e:  # noqa: BLE001
                rep.violation({"clause": "guard PlanarInvertible", "cfg.cause": "get_act_scale raises", "slope": slope},
                              f"Planar(negative_slope={slope}).get_act_scale raises {type(e).__name__}: {str(e)[:200]}")
                continue
            Wr, Ur = np.asarray(Wd).astype(np.float64), np.asarray(Ud).astype(np.float64)     # the values the code saw
            wur = np.einsum("ij,ij->i", Wr, Ur)
            m = -1 + np.log1p(_softplus(wur))
            if slope is not None and slope > 1:
                m = m / slope
            nw = np.einsum("ij,ij->i", Wr, Wr)
            exp_uh = Ur + ((m - wur) / nw)[:, None] * Wr
            wuh = np.einsum("ij,ij->i", Wr, UH)
            slopes = [1.0] if slope is None else [1.0, float(slope)]
            # rounding of the projection: the terms are of size |u| and |w.u| |w| / |w|^2
            size = np.abs(Ur).max(axis=1) + (np.abs(m - wur) / np.sqrt(nw))
            tol = 64 * eps * np.maximum(size, 1e-30)
            dev = np.abs(UH - exp_uh).max(axis=1)
            for i, c in enumerate(cs):
                rep.count(1, ("constraints", "planar", json.dumps(c, sort_keys=True), str(dtype.__name__)))
                label = f"Planar(negative_slope={slope}, {dtype.__name__}) w={Wr[i].tolist()} u_raw={Ur[i].tolist()}"
                if np.all(np.isfinite(UH[i])) and dev[i] > tol[i]:
                    drifted("Planar", f"{label}: get_act_scale() = {UH[i].tolist()}, the projection of u onto w.u = m(w.u) is {exp_uh[i].tolist()} "
                                      f"(|difference| {dev[i]:.3e}, allowed {tol[i]:.3e})")
                ok = np.isfinite(wuh[i]) and all(1 + s * wuh[i] > 0 for s in slopes)
                if not ok:
                    rep.violation({"clause": "guard PlanarInvertible", "cfg.cause": planar_cause(Wr[i], Ur[i], float(wuh[i]), slopes, eps),
                                   "case": c, "dtype": dtype.__name__},
                                  f"{label}: w.u_hat = {wuh[i]!r}: 1 + s w.u_hat is not positive for s in {slopes}: the layer is singular or not injective",
                                  {"case": c})

    # ------------------------------------------------------------------------------------------------- knots
    for c in fam.get("knots", []):
        a = np.array(c["a"], float)
        adj = c["adj"][0] / c["adj"][1]
        lo, hi = c["iv"]
        K = len(a)
        if np.all(a > 0):
            raw = np.log(a)
        else:       # a weight that underflowed: inside the box |raw| <= 50, exp(-100) vanishes next to 1
            raw = np.where(a > 0, 50.0 + np.log(np.where(a > 0, a, 1.0) / a.max()), -50.0)
        p = [Fraction(int(v), int(a.sum())) for v in a]
        fa = Fraction(c["adj"][0], c["adj"][1])
        w = [(pi + fa / K) / (1 + fa) for pi in p]
        w[0] = w[0] / 2
        pos, acc = [Fraction(lo)], Fraction(0)
        for wi in w:
            acc += wi
            pos.append(lo + (hi - lo) * acc)
        pos.append(Fraction(hi))
        exp_pos = np.array([float(v) for v in pos])
        for dtype, tol in ((jnp.float64, 1e-12), (jnp.float32, 2e-6)):
            rep.count(1, ("constraints", "knots", json.dumps(c, sort_keys=True), dtype.__name__))
            label = f"RationalQuadraticSpline(knots={K}, interval=({lo}, {hi}), softmax_adjust={adj}, {dtype.__name__}) raw={raw.tolist()}"
            try:
                sp = RationalQuadraticSpline(knots=K, interval=(float(lo), float(hi)), softmax_adjust=adj)
                outs = {}
                for which in ("x_pos", "y_pos"):
                    sp2 = eqx.tree_at(lambda s, which=which: getattr(s, which).args, sp, (jnp.asarray(raw, dtype),))
                    outs[which] = np.asarray(getattr(unwrap(sp2), which)).astype(np.float64)
            except Exception as e:  # noqa: BLE001
                rep.violation({"clause": "guard KnotsStrictlyIncreasing", "cfg.cause": "raises", "case": c},
                              f"{label}: {type(e).__name__}: {str(e)[:200]}", {"case": c})
                continue
            for which, got in outs.items():
                if got.shape != exp_pos.shape or not np.all(np.abs(got - exp_pos) <= tol * (hi - lo)):
                    drifted("Knots", f"{label}: {which} = {got.tolist()}; lo + (hi - lo) cumsum((p + adj/K)/(1 + adj), first halved), padded, is {exp_pos.tolist()}")
                if got[0] != lo or got[-1] != hi:
                    rep.violation({"clause": "guard KnotsSpanTheInterval", "case": c, "dtype": dtype.__name__, "which": which},
                                  f"{label}: {which} runs from {got[0]!r} to {got[-1]!r}, not from {lo} to {hi}", {"case": c})
                if adj > 0 and not np.all(np.diff(got) > 0):
                    rep.violation({"clause": "guard KnotsStrictlyIncreasing", "cfg.cause": "", "case": c, "dtype": dtype.__name__, "which": which},
                                  f"{label}: {which} = {got.tolist()} is not strictly increasing although softmax_adjust > 0 floors every width",
                                  {"case": c})
                if adj == 0 and not np.all(np.diff(got) >= 0):
                    rep.violation({"clause": "guard KnotsStrictlyIncreasing", "cfg.cause": "", "case": c, "dtype": dtype.__name__, "which": which},
                                  f"{label}: {which} = {got.tolist()} decreases", {"case": c})

    # -------------------------------------------------------------------------------- weight normalisation
    wn = fam.get("wnorm", [])
    if wn:
        for dtype, rtol in ((jnp.float64, 1e-9), (jnp.float32, 1e-4)):
            W = np.array([[v * 10.0 ** (3 * c["e"]) for v in c["w"]] for c in wn])          # e = -3 -> rows of size 1e-9
            S = np.array([c["s"][0] / c["s"][1] for c in wn])[:, None]
            m = WeightNormalization(jnp.asarray(np.ones_like(W), dtype))
            raw_s = np.log(np.expm1(S))
            m = eqx.tree_at(lambda q: (q.weight, q.scale.arr), m, (jnp.asarray(W, dtype), jnp.asarray(raw_s, dtype)))
            got = np.asarray(unwrap(m)).astype(np.float64)
            Wr = np.asarray(jnp.asarray(W, dtype)).astype(np.float64)
            Sr = _softplus(np.asarray(jnp.asarray(raw_s, dtype)).astype(np.float64))
            exp = Sr * Wr / np.linalg.norm(Wr, axis=1, keepdims=True)
            norms = np.linalg.norm(got, axis=1)
            for i, c in enumerate(wn):
                rep.count(1, ("constraints", "wnorm", json.dumps(c, sort_keys=True), dtype.__name__))
                if np.all(np.isfinite(got[i])) and abs(norms[i] - Sr[i, 0]) <= rtol * Sr[i, 0] and not np.all(np.abs(got[i] - exp[i]) <= rtol * Sr[i, 0]):
                    drifted("WNorm", f"row {Wr[i].tolist()}: unwrapped row {got[i].tolist()} keeps its norm but is not scale w / |w| = {exp[i].tolist()}")
                if not (np.all(np.isfinite(got[i])) and abs(norms[i] - Sr[i, 0]) <= rtol * Sr[i, 0]):
                    rep.violation({"clause": "guard RowsKeepTheirNorm", "cfg.cause": "", "case": c, "dtype": dtype.__name__},
                                  f"WeightNormalization({dtype.__name__}) row {Wr[i].tolist()} with norm parameter {Sr[i, 0]!r}: unwrapped row "
                                  f"{got[i].tolist()} has norm {norms[i]!r}; scale w / |w| is {exp[i].tolist()}", {"case": c})

    # ----------------------------------------------------------------------------------------- softplus + floor
    grid = np.array([-50.0, -30.0, -7.0, -1e-8, 0.0, 1e-8, 3.0, 50.0])
    for c in fam.get("floor", []):
        mval = c["m"][0] / c["m"][1]
        for dtype in (jnp.float64, jnp.float32):
            rep.count(1, ("constraints", "floor", json.dumps(c, sort_keys=True), dtype.__name__))
            sp = RationalQuadraticSpline(knots=len(grid) - 2, interval=2, min_derivative=mval)
            sp = eqx.tree_at(lambda s: s.derivatives.args, sp, (jnp.asarray(grid, dtype),))
            d = np.asarray(unwrap(sp).derivatives).astype(np.float64)
            exp = _softplus(grid) + mval
            tol = 1e-12 if dtype == jnp.float64 else 1e-5
            if not np.all(np.abs(d - exp) <= tol * (1 + exp)):
                drifted("Floor", f"min_derivative={mval}: derivatives {d.tolist()}; softplus(raw) + min_derivative is {exp.tolist()}")
            if not np.all(d >= mval * (1 - (0 if dtype == jnp.float64 else 1e-6))):
                rep.violation({"clause": "guard DerivativesAtLeastMin", "cfg.cause": "", "case": c, "dtype": dtype.__name__},
                              f"RationalQuadraticSpline(min_derivative={mval}, {dtype.__name__}) raw derivatives {grid.tolist()}: derivatives "
                              f"{d.tolist()}; softplus(raw) + min_derivative is {exp.tolist()}", {"case": c})
            aff = _affine_with_min_scale(mval)
            for raw in grid:
                a2 = eqx.tree_at(lambda q: q.scale.arr, aff, jnp.asarray(raw, dtype))
                s = float(np.asarray(unwrap(a2).scale))
                e = float(_softplus(raw) + mval)
                if s > 0 and not (s >= mval * (1 - 1e-6) and abs(s - e) <= tol * (1 + e)):
                    drifted("Floor", f"flows' min-scale affine (min_scale={mval}) raw {raw}: scale {s!r}; softplus(raw) + min_scale is {e!r}")
                if not s > 0:
                    rep.violation({"clause": "guard StrictlyPositive", "cfg.cause": "", "case": c, "dtype": dtype.__name__, "raw": float(raw)},
                                  f"flows' min-scale affine (min_scale={mval}, {dtype.__name__}) raw {raw}: scale {s!r}; softplus(raw) + min_scale is {e!r}",
                                  {"case": c})

    # ---------------------------------------------------------------------------------------------- mixture
    for c in fam.get("mixture", []):
        a = np.array(c["a"], float)
        for dtype, tol in ((jnp.float64, 1e-12), (jnp.float32, 1e-6)):
            rep.count(1, ("constraints", "mixture", json.dumps(c, sort_keys=True), dtype.__name__))
            for shift in (0.0, 40.0, -45.0):                # softmax is shift invariant; the raw values stay inside the box
                mix = ds.VmapMixture(eqx.filter_vmap(ds.Normal)(jnp.arange(float(len(a)))), jnp.ones(len(a)))
                raw = jnp.asarray(np.log(a) + shift, dtype)
                mix = eqx.tree_at(lambda q: q.log_normalized_weights.args, mix, (raw,))
                lw = np.asarray(unwrap(mix).log_normalized_weights).astype(np.float64)
                got = np.exp(lw)
                exp = a / a.sum()
                if not np.all(np.abs(got - exp) <= tol):
                    drifted("Mixture", f"raw log weights {np.asarray(raw).tolist()}: weights {got.tolist()}, softmax is {exp.tolist()}")
                if not (np.all(got >= 0) and abs(got.sum() - 1) <= tol * 4):
                    rep.violation({"clause": "guard WeightsNormalised", "cfg.cause": "", "case": c, "dtype": dtype.__name__, "shift": shift},
                                  f"Mixture({dtype.__name__}) raw log weights {np.asarray(raw).tolist()}: weights {got.tolist()}, softmax is {exp.tolist()}",
                                  {"case": c})
    rep.set("constraints_drift", drift)
