"""C10 -- the bisection inverter finds the root of any increasing function.

design      TLC, exhaustive: Bisection.tla with the root as an adversary (all roots up to 2^AMax widths away, all
            (max_iter, tol) of the grid), one and two coordinates; termination under weak fairness.
spec->code  every maximal behaviour TLC prints is run through the public AutoregressiveBisectionInverter on g(x - r)
            for the function family of the property, with dyadic lower / upper so the run is exact:
            P  the result lies in the final sign bracket and within max(tol, resolution) of r when the loop ended by
               tolerance;  I  the evaluated points equal the behaviour's points one by one.
code->spec  randomised real runs (roots inside, on the ends, one ulp outside, up to 1e6 widths away, tolerances down
            to below float resolution, max_iter 0..200, dimensions 1-6 with triangular coupling, the real
            BlockAutoregressiveNetwork) recorded as (rank, sign, exact position) events through the supplied function
            and validated by Trace_Bisection, I layer then P layer.
"""

from __future__ import annotations

import argparse
import json
import math
import random
import sys

import os

import jax

X64 = os.environ.get("VERIF_X64", "1") == "1"          # the float32 pass runs in a subprocess with VERIF_X64=0
jax.config.update("jax_enable_x64", X64)

import equinox as eqx  # noqa: E402
import jax.numpy as jnp  # noqa: E402
import numpy as np  # noqa: E402

from engine import tlc, tracecheck  # noqa: E402
from engine.report import Report, main_guard, tier  # noqa: E402

PID = "C10"
P_GUARDS = ["IncreasingFunction", "MaxIter", "Accurate"]
SINK: list = []

G_NAMES = ["linear-steep", "linear-flat", "cubic", "sinh", "saturating", "kinked"]


def g_apply(kind: int, t):
    if kind == 0:
        return 1e6 * t
    if kind == 1:
        return 1e-6 * t
    if kind == 2:
        return t * t * t
    if kind == 3:
        return jnp.sinh(jnp.clip(t, -700.0, 700.0)) + 1e-300 * t
    if kind == 4:
        return jnp.tanh(t) + 0.01 * t
    return jnp.where(t < 0, 0.1 * t, 3.0 * t)


class Tri(eqx.Module):
    """Bijection-like triangular map: f_i(x) = g(x_i - r_i + sum_{j<i} C_ij * (tanh(x_j) - tanh(a_j))).
    It only needs .shape and .transform, which is all the public inverter uses."""
    r: jax.Array
    C: jax.Array
    a: jax.Array
    kind: int = eqx.field(static=True)
    shape: tuple = eqx.field(static=True)

    def transform(self, x, condition=None):
        shift = jnp.tril(self.C, -1) @ (jnp.tanh(x) - jnp.tanh(self.a))
        val = g_apply(self.kind, x - self.r + shift)
        jax.debug.callback(lambda xv, v: SINK.append((np.asarray(xv).copy(), np.asarray(v).copy())), x, val,
                           ordered=True)
        return val


@eqx.filter_jit
def _invert(inv, bij, y):
    return inv(bij, y)


def run_inverter(bij, y, *, lower, upper, tol, max_iter):
    from flowjax.bisection_search import AutoregressiveBisectionInverter
    SINK.clear()
    inv = AutoregressiveBisectionInverter(lower=lower, upper=upper, tol=tol, max_iter=max_iter)
    out = _invert(inv, bij, jnp.asarray(y, dtype=float))
    jax.effects_barrier()
    return np.asarray(out), list(SINK)


# ------------------------------------------------------------------------------------------------------------------
def segment(events, dim, mid):
    """Coordinate of every evaluation: running maximum of the highest index that differs from the initial midpoint
    (the driver initialises the vector to the interval midpoint and solves coordinates in order)."""
    segs = [[] for _ in range(dim)]
    c = 0
    for xv, val in events:
        nz = [j for j in range(dim) if xv[j] != mid]
        c = max(c, max(nz) if nz else 0)
        segs[c].append((float(xv[c]), float(val[c])))
    return segs


def project(seg, result, y_c, *, lower, upper, tol, max_iter, root, extra_bound=0.0):
    """One scalar search -> a Trace_Bisection record (ranks, signs, exact units when the run is dyadic-exact)."""
    pts = [p for p, _ in seg]
    signs = [int(np.sign(v - y_c)) for _, v in seg]
    w = upper - lower
    unit = w / 2**20
    us = [(p - lower) / unit for p in pts] + [(result - lower) / unit]
    exact = all(abs(u) < 2**30 and u == int(u) for u in us) and (2 * tol / unit) < 2**30
    order = sorted(set(pts))
    rank = {p: 2 * i for i, p in enumerate(order)}
    if result in rank:
        rr = rank[result]
    else:
        below = sum(1 for p in order if p < result)
        rr = 2 * below - 1
    n_bis = None
    # float resolution where the search ends up, not at the ends of the bracket it started from (the bracket shrinks)
    scale = max(abs(root), abs(result)) if root is not None else 0.0
    eps = np.finfo(np.float64 if X64 else np.float32).eps
    if root is None:
        within = True
    else:
        # by tolerance (or float resolution); nothing is promised when max_iter may have cut the search short
        allowed = max(tol, 4 * eps * scale) + extra_bound
        within = True if len(pts) - 2 >= max_iter else abs(result - root) <= allowed
    return {
        "cfg": {"maxiter": int(max_iter), "exact": bool(exact), "tolw": int(math.floor(2 * tol / unit)) if exact else 0},
        "ev": [{"r": rank[p], "s": s, "u": int(u) if exact else 0} for p, s, u in zip(pts, signs, us)],
        "ret": {"r": rr, "u": int(us[-1]) if exact else 0, "within": bool(within), "evals": len(pts)},
        "num": {"lower": lower, "upper": upper, "tol": tol, "root": root, "result": float(result),
                "points": pts[:40], "kind": None},
    }


# ------------------------------------------------------------------------------------------------------------------
def model_check(rep: Report, thorough: bool):
    per = {}
    runs = [("MC_Bisection_full.cfg" if thorough else "MC_Bisection_small.cfg", True), ("MC_Bisection_dim2.cfg", True),
            ("MC_Bisection_live.cfg", False)]
    for cfg, cov in runs:
        r = tlc.run("Bisection", cfg, workers=16, coverage=cov, timeout=1800)
        per[cfg] = {"distinct": r.distinct, "generated": r.generated, "depth": r.depth, "wall_s": round(r.wall_s, 1),
                    "result": r.violated or "no error",
                    "actions": {a: v[0] for a, v in r.actions.items() if a in
                                ("EvalLo", "EvalHi", "AdaptMove", "AdaptExit", "BisectStep", "Finish", "NextCoordinate")}}
        if r.violated:
            rep.machinery_failure(f"the specification itself violates {r.violated} under {cfg}")
            continue
        if cov and any(v == 0 for v in per[cfg]["actions"].values()):
            rep.machinery_failure(f"vacuous run {cfg}: {per[cfg]['actions']}")
        rep.add("states", r.distinct)
        rep.add("transitions", r.generated)
    rep.set("tlc_runs", per)


INTERVALS = [(-1.0, 1.0), (0.0, 1.0), (-10.0, 10.0), (3.0, 3.5), (-4096.0, -2048.0)]


def replay_cases(rep: Report, cases: list, rng: random.Random, budget: int, traces: list, amax: int):
    picked = cases if len(cases) <= budget else rng.sample(cases, budget)
    for ci, c in enumerate(picked):
        S = c["S"]
        dim = len(c["found"])
        lower, upper = INTERVALS[ci % len(INTERVALS)]
        w = upper - lower
        pos = lambda p: lower + (p / S) * w  # noqa: E731
        kind = ci % len(G_NAMES)
        tol = c["cfg"]["tolW"] / 2 / S * w
        roots, per_coord = [], []
        for d in range(1, dim + 1):
            ev = [(p, s) for (cc, p, s) in c["evals"] if cc == d]
            hit = [p for p, s in ev if s == 0]
            ka = max([p for p, s in ev if s < 0], default=-(2**amax - 1) * S)
            kb = min([p for p, s in ev if s > 0], default=(2**amax) * S)
            r = pos(hit[0]) if hit else pos(ka) + (pos(kb) - pos(ka)) * (0.37 if ci % 2 else 0.81)
            roots.append(r)
            per_coord.append((ev, ka, kb, hit))
        found = [pos(p) for p in c["found"]]
        # coupling: coordinate 2 sees the FOUND root of coordinate 1 (exactly representable), so its own root is r2
        C = np.zeros((dim, dim))
        if dim > 1:
            C[1, 0] = 2.5
        bij = Tri(r=jnp.asarray(roots), C=jnp.asarray(C), a=jnp.asarray(found), kind=kind, shape=(dim,))
        key = {"case": "tlc-behaviour", "g": G_NAMES[kind], "dim": dim, "max_iter": c["cfg"]["maxIter"]}
        try:
            out, events = run_inverter(bij, np.zeros(dim), lower=lower, upper=upper, tol=tol,
                                       max_iter=c["cfg"]["maxIter"])
        except Exception as e:  # noqa: BLE001
            rep.violation({**key, "error": type(e).__name__}, f"inverter raised {type(e).__name__}: {e}", {"case": c})
            continue
        mid = (lower + upper) / 2
        segs = segment(events, dim, mid)
        rep.count(1, ("behaviour", json.dumps(c["cfg"], sort_keys=True), tuple(map(tuple, c["evals"])), kind)
                  if any(s != 0 for (_, _, s) in c["evals"]) and len(c["evals"]) > 2 else None)
        rep.sample({"kind": "spec->code", "tlc_case": c, "g": G_NAMES[kind], "interval": [lower, upper],
                    "roots": roots, "result": out.tolist()}, 3)
        # P-run: the same search with a generous max_iter must reach the tolerance (down to float resolution)
        try:
            outP, _ = run_inverter(bij, np.zeros(dim), lower=lower, upper=upper, tol=tol, max_iter=200)
        except Exception as e:  # noqa: BLE001
            rep.violation({**key, "error": type(e).__name__}, f"inverter raised {type(e).__name__}: {e}", {"case": c})
            continue
        for d in range(dim):
            ev, ka, kb, hit = per_coord[d]
            exp_pts = [pos(p) for p, _ in ev]
            got_pts = [p for p, _ in segs[d]]
            res = float(out[d])
            # P (own observations only): the result lies in the sign bracket the run itself observed
            negs = [p for p, v in segs[d] if v < 0]
            poss = [p for p, v in segs[d] if v > 0]
            zeros = [p for p, v in segs[d] if v == 0]
            okP = (not negs or res >= max(negs)) and (not poss or res <= min(poss)) and bool(zeros or (negs and poss))
            if not okP:
                rep.note(f"model-drift Bisection: with max_iter={c['cfg']['maxIter']} the returned point {res} lies "
                         f"outside the sign bracket the run itself observed (g={G_NAMES[kind]}, points {got_pts[:8]})")
                rep.add("drift_replays")
            resP = float(outP[d])
            # the scalar search of coordinate d has its root where the coupling term, evaluated at the roots the
            # P-run itself found for the earlier coordinates, cancels
            root_d = roots[d] - sum(C[d, j] * (math.tanh(float(outP[j])) - math.tanh(found[j])) for j in range(d))
            allowed = max(tol, 4e-16 * max(abs(lower), abs(upper), abs(root_d)))
            if abs(resP - root_d) > allowed:
                rep.violation({**key, "coord": d, "what": "root not found within tolerance", "max_iter": 200},
                              f"inverter on g={G_NAMES[kind]}(x - {root_d}) (coordinate {d} of {dim}) from [{lower}, {upper}], tol={tol}, "
                              f"max_iter=200: returned {resP}, |error| = {abs(resP - root_d)} > {allowed}",
                              {"case": c, "roots": roots, "result": outP.tolist(), "interval": [lower, upper]})
            if got_pts != exp_pts:
                rep.note(f"model-drift Bisection: evaluation points differ from the specification's behaviour "
                         f"(g={G_NAMES[kind]}, coord {d}): expected {exp_pts[:8]} got {got_pts[:8]}")
                rep.add("drift_replays")
            t = project(segs[d], res, 0.0, lower=lower, upper=upper, tol=tol, max_iter=c["cfg"]["maxIter"],
                        root=roots[d])
            t["num"]["kind"] = G_NAMES[kind]
            traces.append(t)


def random_runs(rep: Report, rng: random.Random, count: int, traces: list):
    eps = np.finfo(np.float64 if X64 else np.float32).eps
    for i in range(count):
        dim = 1 if i % 3 else rng.randrange(2, 7)
        lower, upper = rng.choice(INTERVALS + [(-10.0, 10.0), (-0.3, 0.7), (1e3, 1e3 + 1), (-1e8, 1e8), (-1e5, 3e5)])
        w = upper - lower
        wide = w > 1e4
        kind = rng.randrange(len(G_NAMES))
        tol = rng.choice([1e-2, 1e-3, 1e-5, 1e-7, 1e-9, 1e-13, 1e-18])
        max_iter = rng.choice([0, 1, 5, 60, 200, 200, 200])
        where = rng.randrange(8)
        xs = []
        for _ in range(dim):
            if where == 0:
                r = lower
            elif where == 1:
                r = upper
            elif where == 2:
                r = float(np.nextafter(lower, -np.inf))
            elif where == 3:
                r = float(np.nextafter(upper, np.inf))
            elif where == 4:
                r = lower - w * rng.choice([1.0, 3.7, 1e2, 1e5, 1e6])
            elif where == 5:
                r = upper + w * rng.choice([1.0, 2.0, 7.3, 1e3, 1e6])
            elif wide:          # a bracket many orders of magnitude wider than the root: the accuracy promised is tol at the ROOT's scale
                r = rng.uniform(-3.0, 3.0)
            else:
                r = lower + w * rng.random()
            xs.append(r)
        C = np.tril(np.array([[rng.uniform(-0.4, 0.4) for _ in range(dim)] for _ in range(dim)]), -1)
        bij = Tri(r=jnp.asarray(xs), C=jnp.asarray(C), a=jnp.asarray(xs), kind=kind, shape=(dim,))
        # with a = the true preimage, f(x*) = g(0) = 0 for every coordinate: y = 0, preimage xs
        key = {"case": "random", "g": G_NAMES[kind], "dim": dim, "where": where, "tol": tol, "max_iter": max_iter}
        try:
            out, events = run_inverter(bij, np.zeros(dim), lower=lower, upper=upper, tol=tol, max_iter=max_iter)
        except Exception as e:  # noqa: BLE001
            rep.violation({**key, "error": type(e).__name__}, f"inverter raised {type(e).__name__}: {e}", {"xs": xs})
            continue
        if not np.all(np.isfinite(out)):
            rep.violation({**key, "what": "non-finite result"}, f"inverter returned {out} for roots {xs}", {"xs": xs})
            continue
        # the driver's initial vector is constant (the midpoint in the run's own dtype): read it from the first evaluation
        mid0 = float(events[0][0][-1]) if dim > 1 and events else (lower + upper) / 2
        segs = segment(events, dim, mid0)
        bound = []
        for d in range(dim):
            eb = sum(abs(C[d, j]) * bound[j] for j in range(d))          # tanh is 1-Lipschitz
            # the scalar search of coordinate d has its root at xs[d] - sum_j C_dj (tanh(found_j) - tanh(xs_j))
            shift = sum(C[d, j] * (math.tanh(float(out[j])) - math.tanh(xs[j])) for j in range(d))
            root_d = xs[d] - shift
            t = project(segs[d], float(out[d]), 0.0, lower=lower, upper=upper, tol=tol, max_iter=max_iter,
                        root=root_d)
            t["num"]["kind"] = G_NAMES[kind]
            t["num"]["dim"] = dim
            traces.append(t)
            sc = max(abs(xs[d]), abs(float(out[d])))          # resolution at the root, not at the ends of the starting bracket
            bound.append(max(tol, 4 * eps * sc) + eb)
            if max_iter >= 200 and abs(float(out[d]) - xs[d]) > 2 * bound[d] + 1e-300:
                rep.violation({**key, "coord": d, "what": "preimage not recovered"},
                              f"triangular map, g={G_NAMES[kind]}, dim={dim}: coordinate {d} returned {out[d]} "
                              f"for true preimage {xs[d]} (bound {2 * bound[d]})",
                              {"xs": xs, "C": C.tolist(), "interval": [lower, upper], "tol": tol, "out": out.tolist()})
        rep.count(1, ("random", dim, kind, where, tol, max_iter))
    return


def real_block_network(rep: Report, rng: random.Random, count: int):
    """The property's last sentence: block neural autoregressive networks are invertible out of the box."""
    import jax.random as jr
    from flowjax.bijections import BlockAutoregressiveNetwork
    for i in range(count):
        dim = rng.choice([1, 2, 3, 4])
        cond = rng.choice([None, 2])
        key = jr.key(rng.randrange(2**31))
        k1, k2, k3 = jr.split(key, 3)
        try:
            ban = BlockAutoregressiveNetwork(k1, dim=dim, cond_dim=cond, depth=rng.choice([0, 1, 2]),
                                             block_dim=rng.choice([1, 2, 3]))
            x = jr.normal(k2, (dim,)) * rng.choice([0.3, 1.0, 3.0])
            c = None if cond is None else jr.normal(k3, (cond,))
            y = ban.transform(x, c)
            x2 = ban.inverse(y, c)
            J = np.asarray(jax.jacobian(lambda v: ban.transform(v, c))(x))
        except Exception as e:  # noqa: BLE001
            rep.violation({"case": "block-network", "error": type(e).__name__, "dim": dim},
                          f"BlockAutoregressiveNetwork inverse raised {type(e).__name__}: {e}")
            continue
        tol = ban.inverter.tol if hasattr(ban, "inverter") and hasattr(ban.inverter, "tol") else 1e-7
        bound = []
        for d in range(dim):
            eb = sum(abs(J[d, j]) / abs(J[d, d]) * bound[j] for j in range(d))
            bound.append(tol + eb)
        err = np.abs(np.asarray(x2) - np.asarray(x))
        rep.count(1, ("ban", dim, cond, i))
        if np.any(err > 2 * np.asarray(bound) + 1e-12):
            rep.violation({"case": "block-network", "dim": dim, "cond": cond, "what": "preimage not recovered"},
                          f"BlockAutoregressiveNetwork(dim={dim}, cond={cond}): inverse(transform(x)) - x = {err}, "
                          f"bound {2 * np.asarray(bound)}")


def apalache_inductive(rep: Report):
    """Optional extra (DESIGN 3.3): the bracket invariant of the scalar search as an INDUCTIVE invariant over unbounded
    integers (any interval, any root, any number of expansions), discharged by Apalache: IndInit /\\ Next => IndInv' and
    Init => IndInv.  A failure of the tool is recorded, never reported as a violation."""
    import shutil
    import subprocess
    import tempfile
    out = {}
    wd = tempfile.mkdtemp(prefix="flowjax-verif-apa-", dir="/dev/shm" if os.path.isdir("/dev/shm") else None)
    try:
        shutil.copy(tlc.TLA_DIR / "apalache" / "BisectionInd.tla", wd)
        for name, args in (("inductive_step", ["--init=IndInit", "--inv=IndInv", "--length=1"]),
                           ("base_case", ["--init=Init", "--inv=IndInv", "--length=0"])):
            p = subprocess.run(["timeout", "400", "apalache-mc", "check", *args, f"--out-dir={wd}/out", "BisectionInd.tla"],
                               cwd=wd, stdout=subprocess.PIPE, stderr=subprocess.STDOUT, text=True)
            out[name] = "OK" if "EXITCODE: OK" in p.stdout else ("violated" if "violat" in p.stdout.lower() else f"tool failure rc={p.returncode}")
    except Exception as e:  # noqa: BLE001
        out["error"] = f"{type(e).__name__}: {e}"
    finally:
        shutil.rmtree(wd, ignore_errors=True)
    rep.set("apalache_inductive_invariant_Bracket", out)
    if "violated" in out.values():
        rep.machinery_failure(f"Apalache refutes the inductive bracket invariant of BisectionInd.tla: {out}")
    elif any(v != "OK" for v in out.values()):
        rep.note(f"Apalache inductive check not completed ({out}); the bounded TLC result stands on its own")


def float32_pass(rep: Report, count: int, traces: list):
    """The same randomised runs with jax_enable_x64 off (the library's default dtype), in a subprocess."""
    import subprocess
    import tempfile
    from engine.pool import Proxy  # noqa: F401
    with tempfile.NamedTemporaryFile(suffix=".json", delete=False) as f:
        out = f.name
    env = dict(os.environ, VERIF_X64="0")
    p = subprocess.run([sys.executable, "-m", "harness.c10", "--worker32", str(count), "--out", out], env=env,
                       stdout=subprocess.PIPE, stderr=subprocess.STDOUT, text=True, timeout=1800)
    try:
        data = json.loads(open(out).read())
    except Exception:  # noqa: BLE001
        rep.machinery_failure(f"float32 worker failed: {p.stdout[-800:]}")
        return
    finally:
        os.unlink(out)
    for name, args in data["calls"]:
        if name == "count":
            args = [args[0], None if args[1] is None else json.dumps(args[1])]
        getattr(rep, name)(*args)
    for t in data["traces"]:
        t["num"]["kind"] = (t["num"]["kind"] or "") + "/float32"
        traces.append(t)
    rep.set("float32_traces", len(data["traces"]))


def main():
    ap = argparse.ArgumentParser()
    ap.add_argument("--replay")
    ap.add_argument("--worker32", type=int)
    ap.add_argument("--out")
    a = ap.parse_args()
    if a.worker32 is not None:
        from engine.pool import Proxy
        from engine.report import seed as _seed
        px = Proxy(_seed())
        tr: list = []
        random_runs(px, random.Random(_seed() + 32), a.worker32, tr)
        from engine.report import _jsonable
        open(a.out, "w").write(json.dumps({"calls": _jsonable(px.calls), "traces": _jsonable(tr)}))
        return 0
    t = tier()
    thorough = t == "thorough"
    rep = Report(PID, t, "model_checking")
    rng = random.Random(rep.seed)
    traces: list = []
    if a.replay:
        payload = json.loads(open(a.replay).read())["replay"]
        print(json.dumps(payload, indent=1)[:3000])
        if "trace" in payload:
            tracecheck.check(rep, "Trace_Bisection", "Trace_Bisection_I.cfg", [payload["trace"]], P_GUARDS, pid=PID)
        elif "case" in payload:
            replay_cases(rep, [payload["case"]], rng, 1, traces, 3)
        rep.count(2, "replay-a"), rep.count(0, "replay-b")
        rep.set("states", 1), rep.set("transitions", 1), rep.set("traces_validated_against_impl", 1)
        return rep.finish()
    model_check(rep, thorough)
    apalache_inductive(rep)
    r1 = tlc.run("Bisection", "MC_Bisection_emit.cfg", workers=4, coverage=False)
    r2 = tlc.run("Bisection", "MC_Bisection_emit2d.cfg", workers=4, coverage=False)
    rep.set("tlc_cases_emitted", {"dim1": len(r1.cases), "dim2": len(r2.cases)})
    replay_cases(rep, r1.cases, rng, 444 if thorough else 150, traces, 3)
    replay_cases(rep, r2.cases, rng, 121 if thorough else 40, traces, 1)
    random_runs(rep, rng, 900 if thorough else 150, traces)
    real_block_network(rep, rng, 40 if thorough else 10)
    float32_pass(rep, 400 if thorough else 60, traces)
    stats = tracecheck.check(rep, "Trace_Bisection", "Trace_Bisection_I.cfg", traces, P_GUARDS, pid=PID,
                             describe=lambda tr: {"g": tr["num"]["kind"], "lower": tr["num"]["lower"],
                                                  "upper": tr["num"]["upper"], "tol": tr["num"]["tol"],
                                                  "root": tr["num"]["root"], "maxiter": tr["cfg"]["maxiter"]})
    rep.set("traces_validated_against_impl", len(traces))
    rep.set("trace_validation", stats)
    rep.set("exact_traces", sum(1 for tr in traces if tr["cfg"]["exact"]))
    rep.sample({"kind": "code->spec trace", "trace": traces[len(traces) // 2]}, 5)
    rep.set("rule", "spec->code: one run per maximal behaviour of the TLC model (answer sequence of the adversary) x "
                    "function of the family; non-trivial = more than the two end evaluations and not an immediate "
                    "exact hit. code->spec: one trace per scalar search of a randomised run (root placement x function "
                    "x tol x max_iter x dim)")
    rep.assume("functions are continuous and strictly increasing (the recorded signs are checked to be monotone)")
    rep.assume("float64; exact (dyadic) runs are compared position by position, others by rank")
    return rep.finish()


if __name__ == "__main__":
    sys.exit(main_guard(PID, main))
