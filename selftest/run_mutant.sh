#!/bin/bash
# selftest/run_mutant.sh <patch> <ID> [tier]   -- apply a patch to /repo, run one check, always revert.
# Development aid (binding demonstration, DESIGN section 10); not a registered check.
set -u
PATCH="$(realpath "$1")"; ID="$2"; TIER="${3:-quick}"
cd /repo || exit 2
if ! git diff --quiet; then echo "/repo has uncommitted changes; refusing" >&2; exit 2; fi
EV="/verif/evidence/$ID.json"; BK="$(mktemp)"; [ -f "$EV" ] && cp "$EV" "$BK"
trap 'git -C /repo checkout -- . >/dev/null 2>&1; [ -s "$BK" ] && cp "$BK" "$EV"; rm -f "$BK"' EXIT
git apply "$PATCH" || { echo "patch does not apply" >&2; exit 2; }
cd /verif && ./check "$ID" --tier "$TIER" 2>&1 | grep -E "^(VIOLATION|KNOWN-FINDING|NOTE|\[C|MACHINERY|  detail)" | cut -c1-400 | head -${LINES_MAX:-12}
echo "exit=${PIPESTATUS[0]}"
