#!/bin/bash
# selftest/run_mutant.sh <patch> <ID> [tier]   -- run one check against a changed flowjax, always clean up.
# Development aid (binding demonstration, DESIGN section 10); not a registered check.
#   default            the patch is applied to a scratch worktree of /repo under /dev/shm which is put in front of the
#                      editable install with PYTHONPATH (so /repo is untouched and background runs are not disturbed)
#   MUT_MODE=repo      the patch is applied to /repo itself (git apply ... git checkout -- .), as the task brief describes
set -u
PATCH="$(realpath "$1")"; ID="$2"; TIER="${3:-quick}"
ROOT="$(cd "$(dirname "$0")/.." && pwd)"   # /verif, or a snapshot copy of it
EV="$ROOT/evidence/$ID.json"; BK="$(mktemp)"; [ -f "$EV" ] && cp "$EV" "$BK"
if [ "${MUT_MODE:-worktree}" = "repo" ]; then
  cd /repo || exit 2
  if ! git diff --quiet; then echo "/repo has uncommitted changes; refusing" >&2; exit 2; fi
  trap 'git -C /repo checkout -- . >/dev/null 2>&1; [ -s "$BK" ] && cp "$BK" "$EV"; rm -f "$BK"' EXIT
  git apply "$PATCH" || { echo "patch does not apply" >&2; exit 2; }
else
  WT="/dev/shm/mutwt_$$"
  trap 'git -C /repo worktree remove --force "$WT" >/dev/null 2>&1; [ -s "$BK" ] && cp "$BK" "$EV"; rm -f "$BK"' EXIT
  git -C /repo worktree add -q --detach "$WT" "${MUT_BASE:-HEAD}" || exit 2   # MUT_BASE: a seed recorded against an earlier commit
  git -C "$WT" apply "$PATCH" || { echo "patch does not apply" >&2; exit 2; }
  export PYTHONPATH="$WT"
fi
cd "$ROOT" && ./check "$ID" --tier "$TIER" 2>&1 | grep -E "^(VIOLATION|KNOWN-FINDING|NOTE|\[C|MACHINERY|  detail)" | cut -c1-400 | head -${LINES_MAX:-12}
echo "exit=${PIPESTATUS[0]}"
