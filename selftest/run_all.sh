#!/bin/bash
# Runs every hand-written mutant (must be caught) and every benign variant (must stay silent) against the check of the
# property named by the file prefix; writes selftest/results.json.  Development aid, not a registered check.
cd "$(dirname "$0")/.."
OUT=selftest/results.json; echo "[" > $OUT; first=1
for kind in mutants benign; do
  for p in selftest/$kind/*.patch; do
    name=$(basename $p .patch); id=$(echo $name | cut -c1-3 | tr a-z A-Z)
    res=$(LINES_MAX=400 selftest/run_mutant.sh $p $id quick 2>&1)
    nviol=$(echo "$res" | grep -c "^VIOLATION")
    ndrift=$(echo "$res" | grep -c "^NOTE model-drift")
    ex=$(echo "$res" | grep "^exit=" | cut -d= -f2)
    detail=$(echo "$res" | grep "  detail:" | head -1 | cut -c11-230 | sed 's/\\/\\\\/g; s/"/\\"/g')
    [ $first = 1 ] || echo "," >> $OUT; first=0
    echo "{\"name\":\"$name\",\"kind\":\"$kind\",\"property\":\"$id\",\"exit\":$ex,\"violations\":$nviol,\"drift_notes\":$ndrift,\"first\":\"$detail\"}" >> $OUT
    echo "$kind $name -> exit=$ex violations=$nviol drift=$ndrift"
  done
done
echo "]" >> $OUT
